"""C02 -- the stack/memory specification denotes the block under every admissible schedule.

For each block and option set the real front-end produces the specification(s); per sub-block one SMT query
  exists sigma, schedule. admissible(schedule) and eval(spec, schedule, sigma) != exec(sub-block, sigma)
(E2 with integer position variables against E1), plus, per pair of memory/storage accesses with at least one store
that neither the declared dependencies nor data flow order, `exists sigma. the two accesses overlap`."""
import sys

from vlib import families as F
from vlib import gasol, pool, report
from vlib import blockcheck as BC
from vlib import speccheck as SP

TIMEOUT_MS = 4000 if report.tier() == "quick" else 12000


def check_block(block, max_rel):
    """returns list of per-sub-block records"""
    from sfs_generator.utils import process_blocks_split
    out = []
    try:
        sfs, subs = gasol.sfs_of(block)
    except Exception as e:
        return [{"verdict": "front-end-raised", "why": "%s: %s" % (type(e).__name__, e)}]
    parts = process_blocks_split(subs)
    for i, part in enumerate(parts):
        name = "%s_%d" % (block.block_name, i)
        if name not in sfs:
            continue
        spec = sfs[name]
        try:
            instrs = [BC._tok2(t) for t in part]
            r = SP.check_spec(spec, instrs, TIMEOUT_MS, max_rel)
        except Exception as e:
            out.append({"verdict": "harness-exception", "why": repr(e), "sub": " ".join(part)})
            continue
        rec = {"verdict": r.verdict, "why": r.reason, "sub": " ".join(part), "n_rel": r.n_rel,
               "rules": spec.get("rules", []), "secs": round(r.seconds, 3)}
        if r.verdict == "different":
            rec["observed"] = r.detail.get("observed")
            rec["order"] = r.detail.get("order")
            rec["state"] = r.detail.get("state")
        try:
            ov, asked = SP.unordered_overlaps(spec, 5000, max_rel)
        except Exception as e:
            ov, asked = [], 0
            rec["overlap_error"] = repr(e)
        rec["overlap_asked"] = asked
        rec["overlaps"] = ov
        out.append(rec)
    return out


def bad(recs):
    return any(r["verdict"] == "different" or r.get("overlaps") for r in recs)


def job(j):
    kind = j[0]
    max_rel = j[-1]
    if kind == "text":
        text = j[1]
        blocks = gasol.parse_plain(text)
        recs = []
        for b in blocks:
            recs += check_block(b, max_rel)
        if bad(recs):
            toks = BC.tokens_of_text(text)

            def still(cand):
                try:
                    rr = []
                    for b in gasol.parse_plain(" ".join(cand)):
                        rr += check_block(b, max_rel)
                    return bad(rr)
                except Exception:
                    return False
            core = BC.minimise(toks, still, wall=10.0) if len(toks) <= 16 else toks
            for r in recs:
                r["core"] = " ".join(core)
        return {"recs": recs}
    _, path, lo, hi, _ = j
    recs = []
    for b in gasol.blocks_of_document(path)[lo:hi]:
        if b.instructions_to_optimize_plain() == []:
            continue
        rr = check_block(b, max_rel)
        for r in rr:
            r["core"] = r.get("sub", "")
            r["block"] = b.block_name
        recs += rr
    return {"recs": recs}


def optsets():
    out = []
    for split in gasol.SPLITS:
        for rules in (True, False):
            for crit in ("gas", "size"):
                out.append(gasol.optset(split, crit, rules, True, "greedy"))
    return out


def build_texts(tier):
    ops, pairs = F.rule_opcodes()
    both = sorted(set(pairs) | {(b, a) for a, b in pairs})
    texts = []
    if tier == "quick":
        texts += F.f_mem((2,), deltas=[0, 1, 31, 32, 33])
        texts += F.f_mem((3,), deltas=[0, 16], ops=("MSTORE", "MLOAD", "MSTORE8"))
        texts += F.f_mem_byte_in_word()[::2]
        texts += F.f_mem_shared_values(deltas=(0, 1, 32), tail=(None, "MLOAD"))
        texts += F.f_mem_repeated_store(deltas=(0, 1, 32))
        texts += F.f_mem((2,), deltas=[0, 32], mixed=True)
        texts += F.f_rule_singles(ops, contexts=("consumed",))
        texts += F.consuming_singles(ops + ["SMOD", "SAR", "BYTE", "SIGNEXTEND"])
        texts += F.f_exh(2)
        texts += F.f_mem_consuming()
        texts += F.f_keccak_pairs()
        texts += F.f_mem_shared_values(deltas=(0, 32), tail=(None,), head=("SLOAD", "MLOAD"))
    else:
        texts += F.f_mem((2,))
        texts += F.f_mem((3,), deltas=[0, 1, 32], ops=("MSTORE", "MLOAD", "MSTORE8", "KECCAK256"))[::3]
        texts += F.f_mem_byte_in_word(deltas=(0, 1, 16, 31, 32, 33))
        texts += F.f_mem_shared_values()
        texts += F.f_mem_repeated_store()
        texts += F.f_mem((3,), deltas=[0, 32], ops=("SSTORE", "SLOAD"))
        texts += F.f_mem((2,), deltas=[0, 1, 32], mixed=True)
        texts += F.f_mem((4,), deltas=[0, 16], ops=("MSTORE", "MLOAD"))
        texts += F.f_rule_singles(ops, contexts=("stack", "consumed", "twice"))
        texts += F.f_rule_pairs(both, consts=[0, 1, F.MASK], contexts=("consumed",))
        texts += F.consuming_singles(ops + ["SMOD", "SAR", "BYTE", "SIGNEXTEND"])
        texts += F.f_exh(3)
        texts += F.f_mem_consuming(deltas=(0, 1, 31, 32))
        texts += F.f_keccak_pairs()
        texts += F.f_mem_shared_values(deltas=(0, 1, 32), tail=(None, "MLOAD"), head=("SLOAD", "MLOAD"))
    seen, uniq = set(), []
    for t in texts:
        if t not in seen:
            seen.add(t)
            uniq.append(t)
    return uniq


def main():
    tier = report.tier()
    rep = report.Report("C02", "translation_validation")
    max_rel = 6 if tier == "quick" else 8
    texts = build_texts(tier)
    docs = F.f_real_documents()
    tasks = []
    osets = optsets()
    for k, o in enumerate(osets):
        # templates are shorter than the partition threshold, so -partition only matters on the real documents;
        # -storage cuts every template at its stores, which leaves little to schedule: it gets a third of them
        if o["split"] == "partition":
            jobs = []
        elif o["split"] == "storage":
            jobs = [("text", t, max_rel) for i, t in enumerate(texts) if i % 3 == k % 3] if o["criteria"] == "gas" else []
        else:
            g = 1 if (o["rules"] and o["criteria"] == "gas") else 2
            jobs = [("text", t, max_rel) for i, t in enumerate(texts) if i % g == k % g]
        ndoc = 2 if tier == "quick" else 8
        for d in [docs[(k * ndoc + i) % len(docs)] for i in range(ndoc)]:
            for lo in range(0, 60 if tier == "quick" else 160, 20):
                jobs.append(("doc", d, lo, lo + 20, max_rel))
        tasks.append((o, jobs, 600))
    results, stats = pool.run(tasks, "checks.c02:job", job_timeout=300)
    programs = specs = nontrivial = asked = 0
    verdicts = {}
    samples = []
    unknowns = []
    for o, j, r in results:
        on = gasol.optset_name(o)
        if "recs" not in r:
            k = "harness:" + ",".join(x for x in r if x.startswith("harness"))
            verdicts[k] = verdicts.get(k, 0) + 1
            continue
        programs += 1
        for rec in r["recs"]:
            specs += 1
            v = rec["verdict"]
            verdicts[v] = verdicts.get(v, 0) + 1
            asked += rec.get("overlap_asked", 0)
            if rec.get("n_rel", 0) >= 2:
                nontrivial += 1
                if len(samples) < 10 and v == "equal":
                    samples.append({"options": on, "sub_block": rec["sub"], "memory_operations": rec["n_rel"],
                                    "verdict": v, "rules": rec["rules"][:3]})
            if v in ("unknown", "spurious", "too-large", "unsupported", "malformed-spec") and len(unknowns) < 40:
                unknowns.append({"verdict": v, "sub_block": rec.get("sub"), "why": rec.get("why"), "options": on})
            core = rec.get("core", rec.get("sub", ""))
            if v == "different":
                rep.violation("spec:core=" + core,
                              "specification differs from the block under an admissible schedule: %s; %s; schedule %s [options %s]"
                              % (rec["why"], rec.get("observed"), rec.get("order"), on),
                              {"options": o, "input": j[1] if j[0] == "text" else rec.get("sub"), "core": core, "sub_block": rec["sub"],
                               "schedule": rec.get("order"), "state": rec.get("state"), "observed": rec.get("observed")})
            for ov in rec.get("overlaps", []):
                rep.violation("unordered:core=" + core,
                              "accesses %s and %s may overlap (offsets %#x / %#x) but are not ordered [options %s]"
                              % (ov["a"], ov["b"], ov["offset_a"], ov["offset_b"], on),
                              {"options": o, "input": j[1] if j[0] == "text" else rec.get("sub"), "core": core, "pair": ov})
            if v == "harness-error":
                rep.harness_error("model did not replay: %s (%s)" % (rec["sub"], rec["why"]))
            if v == "harness-exception":
                rep.harness_error("exception: %s (%s)" % (rec["sub"], rec["why"]))
    rep.coverage = {
        "programs": programs, "disagreements_checked": nontrivial, "specifications": specs,
        "unordered_pair_queries": asked, "verdicts": verdicts,
        "option_sets": [gasol.optset_name(o) for o in osets], "templates": len(texts),
        "samples": samples or [{"note": "none"}], "solver": stats.as_dict(), "inconclusive_samples": unknowns,
        "functions": ["ir_block.evm2rbr_compiler", "gasol_optimization.get_sfs_dict (generate_json, are_dependent, "
                      "generate_dependences, simplify_memory, ...)", "utils.process_blocks_split"],
        "bounds": "specifications with <= %d memory/storage operations get a fully symbolic schedule; larger ones are "
                  "counted as too-large and not decided" % max_rel,
        "explanation": "programs = blocks given to the real front-end; disagreements_checked = specifications with >= 2 "
                       "memory/storage operations (where the schedule quantifier is non-trivial)",
    }
    rep.assumptions = ["every memory offset/length used is < 2^32", "ADDRESS/ORIGIN/CALLER/COINBASE < 2^160"]
    sys.exit(rep.finish())


if __name__ == "__main__":
    if "--replay" in sys.argv:
        from vlib import replay
        sys.exit(replay.replay_spec(sys.argv[sys.argv.index("--replay") + 1]))
    main()
