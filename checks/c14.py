"""C14 -- splitting partitions the block; rebuilding with nothing optimized is the identity.

A. The numeric partition heuristic (split_by_numbers) is executed from its source AST with *symbolic store positions*
   (a strictly increasing list of k integers below 64); z3 decides on every path that the cut points are store
   positions, strictly increasing, end at the last store and are chosen greedily w.r.t. max_bound.
B. For every block of a bounded-exhaustive family of opcode-class sequences (and of long blocks around the partition
   threshold with enumerated store placements) and each of the three splitting policies the real front-end is run and
   the invariants of the property are checked on what it reports: join(sub-blocks) = optimizable instructions with the
   split instruction shared, specification keys and original_instrs match the sub-blocks, stack heights chain
   (independent arity table), rebuild(all None) = B, rebuild({k: R}) differs from B exactly in segment k."""
import ast
import copy
import itertools
import os
import sys

import z3

from vlib import families as F
from vlib import gasol, pool, report
from vlib import evm_smt as E
from vlib import pysym as P
from vlib import blockcheck as BC
from vlib.smt import Stats, solve

STATS = Stats()
BASE_SPLIT = {"LOG0", "LOG1", "LOG2", "LOG3", "LOG4", "CALLDATACOPY", "CODECOPY", "EXTCODECOPY", "RETURNDATACOPY", "CALL",
              "STATICCALL", "DELEGATECALL", "CREATE", "CREATE2", "ASSIGNIMMUTABLE", "GAS"}
STORES = {"SSTORE", "MSTORE", "MSTORE8"}


# ------------------------------------------------------------------------------------------------ A

def heuristic_job(j):
    k = j[0]
    gasol.import_repo()
    import sfs_generator.gasol_optimization as G
    with open(os.path.join(gasol.REPO, "sfs_generator", "gasol_optimization.py")) as f:
        tree = ast.parse(f.read())
    mb = G.max_bound
    out = {"obligations": 0, "discharged": 0, "bad": [], "inconclusive": [], "paths": 0}
    vs = [z3.BitVec("p%d" % i, P.WIDTH) for i in range(k)]
    ass = [vs[0] >= P.bvc(0), vs[-1] < P.bvc(64)] + [vs[i] < vs[i + 1] for i in range(k - 1)]
    ex = P.Executor(tree, {"max_bound": mb}, loop_bound=30, assumptions=ass)
    try:
        paths = ex.run("split_by_numbers", [[P.SymInt(v) for v in vs]])
    except P.Unmodelled as e:
        out["inconclusive"].append("unmodelled: %s" % e)
        return out
    for pc, outcome, _ in paths:
        out["paths"] += 1
        out["obligations"] += 1
        if outcome[0] == "raise":
            verdict, model = solve(ass + pc, 10000, STATS, "c14:raise")
            if verdict == "sat":
                out["bad"].append({"key": "split_by_numbers:raises:" + outcome[1],
                                   "what": "raises %s for store positions %s" % (outcome[1], [model.eval(v, model_completion=True) for v in vs])})
            else:
                out["discharged"] += 1
            continue
        cuts = [P.lift(c) for c in outcome[1]]
        props = []
        if not cuts:
            props.append(z3.BoolVal(False))          # stores is non-empty
        for c in cuts:
            props.append(z3.Or(*[c == v for v in vs]))
        for a, b in zip(cuts, cuts[1:]):
            props.append(a < b)
        if cuts:
            props.append(cuts[-1] == vs[-1])
        prev = P.bvc(0)
        for idx, c in enumerate(cuts):
            # candidates: stores after the previous cut (the first segment starts at position 0, inclusive)
            after = (lambda v: v >= prev) if idx == 0 else (lambda v, prev=prev: v > prev)
            exists_within = z3.Or(*[z3.And(after(v), v - prev < P.bvc(mb)) for v in vs])
            greedy = z3.And(c - prev < P.bvc(mb), after(c),
                            z3.And(*[z3.Not(z3.And(v > c, v - prev < P.bvc(mb))) for v in vs]))
            nextone = z3.And(after(c), z3.And(*[z3.Implies(after(v), v >= c) for v in vs]))
            props.append(z3.If(exists_within, greedy, nextone))
            prev = c
        f = z3.And(*props)
        verdict, model = solve(ass + pc + [z3.Not(f)], 20000, STATS, "c14:cuts")
        if verdict == "unsat":
            out["discharged"] += 1
        elif verdict == "sat":
            pos = [model.eval(v, model_completion=True).as_long() for v in vs]
            got = G.split_by_numbers(list(pos))
            out["bad"].append({"key": "split_by_numbers:%d stores" % k,
                               "what": "store positions %s give cut points %s, not the greedy choice w.r.t. max_bound %d" % (pos, got, mb)})
        else:
            out["inconclusive"].append("solver " + verdict)
    out["stats"] = STATS.as_dict()
    return out


# ------------------------------------------------------------------------------------------------ B

def delta_of(tokens):
    need, d = E.needed_depth([BC._tok2(t) for t in tokens])
    return need, d


def check_block(text, policy):
    """returns list of problems (strings) for one block under the process option set"""
    import gasol_asm
    from sfs_generator.utils import process_blocks_split
    from solution_generation.optimize_from_sub_blocks import rebuild_optimized_asm_block
    from sfs_generator.asm_bytecode import AsmBytecode
    problems = []
    blocks = gasol.parse_plain(text)
    info = {"subblocks": 0, "specs": 0}
    for b in blocks:
        plain = b.instructions_to_optimize_plain()
        if not plain:
            continue
        try:
            sfs, subs = gasol.sfs_of(b)
        except Exception as e:
            problems.append("front-end raises %s" % (repr(e)[:120]))
            continue
        info["subblocks"] += len(subs)
        info["specs"] += len(sfs)
        # 1. partition with the split instruction shared
        joined = list(subs[0])
        for i in range(1, len(subs)):
            if not subs[i] or not subs[i - 1] or subs[i][0] != subs[i - 1][-1]:
                problems.append("sub-blocks %d and %d do not share their split instruction: %s | %s" % (i - 1, i, subs[i - 1][-3:], subs[i][:3]))
            joined += list(subs[i][1:])
        if joined != plain:
            problems.append("joined sub-blocks %s differ from the optimizable instructions %s" % (joined, plain))
        # 2. split instructions are of the kind the policy allows
        allowed = set(BASE_SPLIT) | (STORES if policy in ("storage", "partition") else set())
        for i in range(len(subs) - 1):
            name = subs[i][-1].split(" ")[0]
            if name not in allowed:
                problems.append("block split at %s, which is not a split instruction under policy %s" % (subs[i][-1], policy))
        # 3. keys and original_instrs
        parts = process_blocks_split(subs)
        for key, spec in sfs.items():
            pref = b.block_name + "_"
            if not key.startswith(pref) or not key[len(pref):].isdigit() or int(key[len(pref):]) >= len(parts):
                problems.append("specification key %s corresponds to no reported sub-block" % key)
                continue
            i = int(key[len(pref):])
            if spec.get("original_instrs", "").split() != " ".join(parts[i]).split():
                problems.append("original_instrs of %s is %r, sub-block is %r" % (key, spec.get("original_instrs"), " ".join(parts[i])))
            # 4. stack heights chain: height change of the specification equals that of the sub-block
            try:
                need, d = delta_of(parts[i])
                if len(spec["tgt_ws"]) - len(spec["src_ws"]) != d:
                    problems.append("specification %s changes the height by %d, its sub-block by %d" % (
                        key, len(spec["tgt_ws"]) - len(spec["src_ws"]), d))
                before = b.source_stack
                for k in range(i):
                    before += delta_of(parts[k])[1]
                    before += delta_of([subs[k][-1]])[1]
                if len(spec["src_ws"]) > before:
                    problems.append("specification %s starts from %d stack items, the block has %d there" % (key, len(spec["src_ws"]), before))
                if need > before:
                    problems.append("sub-block %d needs %d stack items, only %d are available" % (i, need, before))
            except E.Unsupported:
                pass
        # 5. rebuild with nothing optimized
        same = lambda x, y: [(i.disasm, i.value, i.begin, i.end, i.source, i.jump_type, i.modifier_depth) for i in x] == \
                            [(i.disasm, i.value, i.begin, i.end, i.source, i.jump_type, i.modifier_depth) for i in y]
        try:
            nb = rebuild_optimized_asm_block(b, copy.deepcopy(subs), {k: None for k in sfs})
            if not same(nb.instructions, b.instructions):
                problems.append("rebuild with nothing optimized changes the block: %s" % nb.to_plain())
        except Exception as e:
            problems.append("rebuild with nothing optimized raises %s" % repr(e)[:120])
        # 6. replacing one sub-block changes exactly that segment
        marker = [AsmBytecode(-1, -1, -1, "CALLER", None), AsmBytecode(-1, -1, -1, "POP", None)]
        head = [i for i in b.instructions if i.disasm in ("tag", "JUMPDEST")]
        tail = [i for i in b.instructions if i.disasm in ("JUMP", "JUMPI", "STOP", "RETURN", "REVERT", "INVALID", "SELFDESTRUCT")]
        def bytecode(tok):
            n, v = BC._tok2(tok)
            return AsmBytecode(-1, -1, -1, n, v)
        for key in sfs:
            k = int(key[len(b.block_name) + 1:])
            # replacements: the marker, nothing at all, and code that ends / starts like the neighbouring split instruction
            # (an optimized sub-block may well end in the opcode it is split at)
            repls = [list(marker), []]
            if k + 1 < len(subs):
                repls.append([marker[0], bytecode(subs[k + 1][0])])
                repls.append([bytecode(subs[k + 1][0])])
            if k > 0:
                repls.append([bytecode(subs[k][0]), marker[1]])
            for repl in repls:
                expect = [(i.disasm, i.value) for i in head]
                for i, part in enumerate(parts):
                    if i > 0:
                        expect.append(BC._tok2(subs[i][0]))
                    if i == k:
                        expect += [(r.disasm, r.value) for r in repl]
                    else:
                        expect += [BC._tok2(t) for t in part]
                expect += [(i.disasm, i.value) for i in tail]
                try:
                    nb = rebuild_optimized_asm_block(b, copy.deepcopy(subs), {key: list(repl)})
                    got = [(i.disasm, None if i.value is None else str(i.value)) for i in nb.instructions]
                    exp = [(n, None if (v is None or n in ("JUMP", "JUMPI")) else str(v)) for n, v in expect]
                    got = [(n, None if n in ("JUMP", "JUMPI") else v) for n, v in got]
                    if got != exp:
                        problems.append("replacing %s by [%s] gives %s, expected %s" % (key, " ".join(r.disasm for r in repl), gasol.plain_of(got), gasol.plain_of(exp)))
                except Exception as e:
                    problems.append("replacing %s raises %s" % (key, repr(e)[:120]))
    return problems, info


def enum_job(j):
    texts = j[0]
    policy = gasol._OPTS["split"]
    out = {"blocks": 0, "bad": [], "subblocks": 0, "specs": 0, "multi": 0}
    for t in texts:
        out["blocks"] += 1
        probs, info = check_block(t, policy)
        out["subblocks"] += info["subblocks"]
        out["specs"] += info["specs"]
        if info["subblocks"] > 1:
            out["multi"] += 1
        for p in probs[:3]:
            out["bad"].append({"text": t, "what": p})
    return out


def job(j):
    if j[0] == "heur":
        return heuristic_job(j[1:])
    return enum_job(j[1:])


CLASSES = ["PUSH 1", "POP", "ADD", "DUP1", "MSTORE", "SSTORE", "LOG0", "GAS", "PUSH [tag] 5", "MLOAD"]


def class_family(max_len):
    out = []
    for n in range(1, max_len + 1):
        for seq in itertools.product(CLASSES, repeat=n):
            for head, tail in (("", ""), ("tag 1 JUMPDEST ", " JUMP"), ("", " STOP")):
                try:
                    toks = list(seq) + ([tail.strip()] if tail else [])
                    if E.needed_depth([BC._tok2(t) for t in toks])[0] > 6:
                        continue
                except E.Unsupported:
                    continue
                out.append(head + " ".join(seq) + tail)
    return out


def long_family(lengths=(21, 22, 23, 24, 30), max_stores=2):
    out = []
    for n in lengths:
        slots = list(range(2, n - 1, 3))
        for r in range(0, max_stores + 1):
            for pos in itertools.combinations(slots, r):
                toks = []
                i = 0
                while len(toks) < n:
                    if i in pos:
                        toks += ["DUP2", "DUP2", "MSTORE"] if len(pos) and pos.index(i) % 2 == 0 else ["DUP2", "DUP2", "SSTORE"]
                        i += 3
                    else:
                        toks += ["PUSH 1", "POP"]
                        i += 2
                out.append(" ".join(toks[:n + 2]))
    return out


def main():
    tier = report.tier()
    rep = report.Report("C14", "other")
    fam = class_family(3 if tier == "quick" else 4)
    fam += F.f_mid_terminal()
    fam += long_family() if tier == "quick" else long_family(lengths=(20, 21, 22, 23, 24, 25, 30, 46), max_stores=3)
    tasks = [(gasol.optset(), [("heur", k) for k in ((1, 2, 3, 4) if tier == "quick" else (1, 2, 3, 4, 5))], 1)]
    for split in gasol.SPLITS:
        for rules in (True, False):
            o = gasol.optset(split, "gas", rules, True, "greedy")
            chunks = [fam[i:i + 400] for i in range(0, len(fam), 400)]
            tasks.append((o, [("enum", c) for c in chunks], 1))
    results, stats = pool.run(tasks, "checks.c14:job", job_timeout=900)
    obligations = discharged = blocks = multi = specs = 0
    for o, j, r in results:
        if j[0] == "heur":
            if "obligations" not in r:
                rep.harness_error("heuristic job failed: %s" % str(r)[:300])
                continue
            obligations += r["obligations"]
            discharged += r["discharged"]
            if r.get("stats"):
                stats.merge(r["stats"])
            for b in r["bad"]:
                rep.violation(b["key"], b["what"], b)
            for inc in r["inconclusive"]:
                rep.harness_error("split_by_numbers: " + inc)
        else:
            if "blocks" not in r:
                rep.harness_error("enumeration job failed: %s" % str(r)[:300])
                continue
            blocks += r["blocks"]
            multi += r["multi"]
            specs += r["specs"]
            for b in r["bad"]:
                rep.violation("%s:%s" % (o["split"], b["text"]), b["what"] + " [options %s]" % gasol.optset_name(o),
                              {"options": o, "input": b["text"], "core": b["text"]})
    rep.coverage = {
        "explanation": "A: split_by_numbers executed symbolically over store positions (%d obligations, %d discharged by z3). "
                       "B: %d (block, policy, rules) combinations through the real front-end and rebuild code, %d of them split "
                       "into several sub-blocks, %d specifications; all invariants of the property checked on each"
                       % (obligations, discharged, blocks, multi, specs),
        "obligations": obligations, "discharged": discharged, "evaluations": blocks, "distinct_nontrivial": multi,
        "rule": "class sequences of length <= %d over %s with/without tag-jump frame, plus long blocks around max_bound with "
                "enumerated store placements; non-trivial = split into more than one sub-block" % (3 if tier == "quick" else 4, CLASSES),
        "samples": [{"block": t} for t in fam[100:104]], "exhaustive": True, "solver": stats.as_dict(),
        "functions": ["gasol_optimization.split_by_numbers/get_sequence (AST)", "ir_block.evm2rbr_compiler", "gasol_optimization.generate_subblocks2split/split_blocks",
                      "utils.process_blocks_split", "optimize_from_sub_blocks.rebuild_optimized_asm_block"],
    }
    rep.assumptions = ["store positions range over [0, 64) in the symbolic part"]
    sys.exit(rep.finish())


if __name__ == "__main__":
    main()
