"""C06 -- every model of the Max-SMT encoding decodes to a realizing sequence; the emitted SMT-LIB is well formed.

For each small specification (init_progr_len <= 8) and each encoder option set the real BlockOptimizer produces its
SMT-LIB text.  The hard part is parsed strictly by z3 (every symbol declared once, sorts and arities respected: a parse
error is a violation of the second sentence).  Then ONE model-set inclusion query per instance:
      hard_GASOL  and  link(t_j <-> E3.t_j through theta_to_instr)  and  not realizes_E3        must be UNSAT
where E3 (vlib.synth) defines stack contents, height and error flag as functions of the sequence.  A model is decoded by the
tool's own reader (get_value / _rebuild_block_from_solver) and replayed on the reference stack machine before reporting."""
import copy
import itertools
import re
import sys
import time

import z3

from vlib import families as F
from vlib import gasol, pool, report, realize, synth
from vlib.smt import Stats

STATS = Stats()
TERM_ENCODINGS = ["uninterpreted_uf", "int", "stack_vars", "uninterpreted_int"]


MAX_LEN = 8


def option_sets(tier):
    """covering array over the encoder switches (quick) / full product (thorough)"""
    switches = ["empty", "push_basic", "pop_uninterpreted", "order_bounds", "order_conflicts", "at_most", "pushed_once",
                "no_output_before_pop"]
    out = []
    if tier == "thorough":
        for te in TERM_ENCODINGS:
            for mem in ("direct", "l_vars"):
                for bits in itertools.product((False, True), repeat=5):
                    d = {"encode_terms": te, "memory_encoding": mem}
                    d.update(dict(zip(switches[:5], bits)))
                    d.update({"at_most": bits[0] != bits[1], "pushed_once": bits[2] != bits[3], "no_output_before_pop": bits[4]})
                    out.append(d)
        return out
    rows = [(0, 0, 0, 1, 1, 0, 0, 1), (1, 1, 1, 0, 0, 1, 1, 0), (1, 0, 1, 1, 0, 0, 1, 1), (0, 1, 0, 0, 1, 1, 0, 0),
            (1, 1, 0, 1, 1, 1, 0, 1), (0, 0, 1, 0, 1, 0, 1, 0)]
    for k, te in enumerate(TERM_ENCODINGS):
        for r, row in enumerate(rows):
            d = {"encode_terms": te, "memory_encoding": "direct" if (r + k) % 2 == 0 else "l_vars"}
            d.update(dict(zip(switches, [bool(b) for b in row])))
            out.append(d)
    return out


def optname(d):
    return "%s/%s/%s" % (d["encode_terms"], d["memory_encoding"],
                         "".join(k[0] if d[k] else "-" for k in ("empty", "push_basic", "pop_uninterpreted", "order_bounds",
                                                                   "order_conflicts", "at_most", "pushed_once", "no_output_before_pop")))


def hard_part(lines):
    keep = []
    for ln in lines:
        s = ln.strip()
        if s.startswith("(assert-soft") or s.startswith("(minimize") or s.startswith("(check-sat") or s.startswith("(get-") or \
                s.startswith("(set-option") or s.startswith("(set-logic") or s.startswith("(maximize"):
            continue
        keep.append(ln)
    return "\n".join(keep)


def instance(spec, name, opts):
    """returns dict with verdict for one specification under one encoder option set"""
    from smt_encoding.block_optimizer import BlockOptimizer
    p = gasol.params()
    for k, v in opts.items():
        setattr(p, k, v)
    rec = {"name": name, "opts": optname(opts), "verdict": None, "bs": spec.get("max_sk_sz")}
    try:
        with gasol.Silence():
            bo = BlockOptimizer(name, copy.deepcopy(spec), p, 2)
            lines = list(bo._solver.to_smt2())
    except Exception as e:
        rec["verdict"] = "encoder-raised"
        rec["why"] = "%s: %s" % (type(e).__name__, str(e)[:150])
        return rec
    text = hard_part(lines)
    try:
        assertions = z3.parse_smt2_string(text)
    except z3.Z3Exception as e:
        rec["verdict"] = "ill-formed"
        rec["why"] = str(e)[:300]
        return rec
    enc = bo._full_encoding
    theta = {k: v.id for k, v in enc.theta_to_instr.items()}
    first, last = enc._bounds.first_position_sequence, enc._bounds.last_position_sequence
    n = last - first + 1
    bs = spec["max_sk_sz"]
    S = synth.Synth(spec, n, bs, prefix="e3")
    uf = opts["encode_terms"] == "uninterpreted_uf"
    if uf:
        T = z3.DeclareSort("T")
        tj = [z3.Const("t_%d" % j, T) for j in range(first, last + 1)]
        th = {k: z3.Const("theta_%d" % k, T) for k in theta}
    else:
        tj = [z3.Int("t_%d" % j) for j in range(first, last + 1)]
        th = {k: z3.IntVal(k) for k in theta}
    link = []
    for j in range(n):
        alts = []
        for k, iid in theta.items():
            if iid not in S.code:
                if iid == "PUSH" and opts.get("push_basic"):
                    rec["verdict"] = "push-basic-decode"
                    rec["why"] = "with -push-basic the model reader decodes a generic instruction id 'PUSH' without its operand " \
                                 "(the pushed value a_j is not read back), so no model decodes to a realizing sequence"
                    return rec
                rec["verdict"] = "unsupported"
                rec["why"] = "instruction %s outside the reference alphabet" % iid
                return rec
            alts.append(z3.And(tj[j] == th[k], S.t[j] == S.code[iid]))
        link.append(z3.Or(*alts))
    # decoding drops NOPs wherever they are: do not insist on NOPs being last
    realizes = z3.And(z3.Not(S.err[n]), S.final, S.once, S.order)
    s = z3.Solver()
    s.set("timeout", 20000)
    s.add(assertions)
    s.add(*S.domain)
    s.add(*link)
    t0 = time.time()
    sat_hard = None
    s.push()
    s.add(z3.Not(realizes))
    r = str(s.check())
    STATS.record("c06:inclusion", r, "z3py", time.time() - t0)
    if r == "unsat":
        s.pop()
        t0 = time.time()
        r2 = str(s.check())
        STATS.record("c06:nonvacuous", r2, "z3py", time.time() - t0)
        rec["verdict"] = "included"
        rec["hard_sat"] = r2
        return rec
    if r != "sat":
        rec["verdict"] = "undecided"
        return rec
    m = s.model()
    # decode through the tool's own model reader
    lines_m = []
    for j in range(first, last + 1):
        lines_m.append("(define-fun t_%d () T\n    %s)" % (j, m.eval(tj[j - first], model_completion=True)))
    if uf:
        for k in theta:
            lines_m.append("(define-fun theta_%d () T\n    %s)" % (k, m.eval(th[k], model_completion=True)))
    bo._solver._model = "sat\n(model\n" + "\n".join(lines_m) + "\n)"
    try:
        ids = bo._rebuild_block_from_solver()
    except Exception as e:
        rec["verdict"] = "harness-error"
        rec["why"] = "model reader failed: %r" % (e,)
        return rec
    ids = [i for i in ids if i != "NOP"]
    ok, why, _ = realize.simulate(spec, ids, max(bs, len(spec["src_ws"]), len(spec["tgt_ws"])))
    if ok:
        rec["verdict"] = "harness-error"
        rec["why"] = "E3 rejects %s but the reference stack machine accepts it" % ids
    else:
        rec["verdict"] = "wrong-model"
        rec["why"] = "the hard constraints admit the sequence %s: %s" % (ids, why)
        rec["ids"] = ids
    return rec


def job(j):
    text, opts_list = j
    recs = []
    p = gasol.params()
    for opts in opts_list:
        # pop/push switches also steer the front-end
        for k, v in opts.items():
            setattr(p, k, v)
        for b in gasol.parse_plain(text):
            try:
                sfs, subs = gasol.sfs_of(b)
            except Exception:
                continue
            for name, spec in sfs.items():
                if spec["init_progr_len"] > MAX_LEN or spec["init_progr_len"] < 1:
                    continue
                rec = instance(spec, name, opts)
                rec["text"] = text
                recs.append(rec)
    return {"recs": recs, "stats": STATS.as_dict()}


def main():
    tier = report.tier()
    rep = report.Report("C06", "model_checking")
    ops, pairs = F.rule_opcodes()
    texts = F.f_exh(2) + F.consuming_singles(["ADD", "SUB", "AND", "ISZERO", "LT", "SHL"])[::3]
    texts += F.f_mem((2,), deltas=[0])[::3]
    texts += F.f_mem_dataflow(deltas=(0,))[:: (3 if tier == "quick" else 1)]
    texts += ["%s %s %s" % (a, op, b) for op in ("SUB", "LT", "DIV", "SHL", "ADD", "AND") for a in ("DUP1", "DUP2", "PUSH 1", "SWAP1")
              for b in ("DUP1", "DUP2", "SWAP1", "POP")]
    texts += ["PUSH 0 DUP2 ADD PUSH 3 MUL", "DUP2 DUP2 SUB SWAP1 POP", "DUP3 DUP3 MSTORE DUP2 MLOAD", "DUP2 DUP2 SSTORE DUP1 SLOAD",
              "CALLER DUP1 AND", "PUSH 1 PUSH 2 ADD DUP2 MUL", "DUP1 DUP1 MUL DUP1 ADD", "SWAP2 SWAP1 POP"]
    if tier == "thorough":
        texts += F.f_exh(3)[::4]
    texts = list(dict.fromkeys(texts))
    osets = option_sets(tier)
    # each job: one block under a slice of the option sets (rotating so that every option set meets every kind of block)
    per = 6 if tier == "quick" else 16
    jobs = []
    for i, t in enumerate(texts):
        sl = [osets[(i * per + k) % len(osets)] for k in range(per)]
        jobs.append((t, sl))
    results, _ = pool.run([(gasol.optset("none", "gas", True, True, "z3"), jobs, 20)], "checks.c06:job", job_timeout=900)
    instances = included = 0
    verdicts = {}
    samples = []
    for o, j, r in results:
        if "recs" not in r:
            verdicts["harness"] = verdicts.get("harness", 0) + 1
            continue
        for rec in r["recs"]:
            instances += 1
            v = rec["verdict"]
            verdicts[v] = verdicts.get(v, 0) + 1
            if v == "included":
                included += 1
                if len(samples) < 6:
                    samples.append({"block": rec["text"], "encoder_options": rec["opts"], "hard_constraints": rec.get("hard_sat")})
            elif v == "wrong-model":
                rep.violation("model:%s:%s" % (rec["text"], rec["opts"]), rec["why"] + " [block %s, encoder options %s]" % (rec["text"], rec["opts"]), rec)
            elif v == "ill-formed":
                kind = re.sub(r"line \d+ column \d+", "line N", rec["why"])[:120]
                flags = rec["opts"].split("/")
                key = "smtlib:%s%s:%s" % (flags[0], "+push_basic" if flags[2][1] == "p" else "", kind[:90])
                if rec.get("bs") == 0 and "unknown constant" in rec["why"]:
                    key = "smtlib:max_sk_sz=0:stack cell variables used but not declared"
                elif "Sort mismatch" in rec["why"] and flags[2][1] == "p" and flags[0].startswith("uninterpreted"):
                    key = "smtlib:push_basic with uninterpreted terms:integer range constraint on a term of the uninterpreted sort"
                rep.violation(key,
                              "emitted SMT-LIB is not well formed: %s [block %s, encoder options %s]" % (rec["why"][:200], rec["text"], rec["opts"]), rec)
            elif v == "push-basic-decode":
                rep.violation("decode:push_basic:generic PUSH without operand", rec["why"] + " [block %s, encoder options %s]" % (rec["text"], rec["opts"]), rec)
            elif v == "encoder-raised":
                rep.violation("encoder:%s:%s" % (rec["opts"], rec["why"][:60]), "the encoder raises: %s [block %s]" % (rec["why"], rec["text"]), rec)
            elif v == "harness-error":
                rep.harness_error("%s: %s" % (rec["text"], rec.get("why")))
    rep.coverage = {
        "states": max(1, included), "transitions": max(1, instances), "traces_validated_against_impl": included,
        "samples": samples or [{"note": "none"}], "verdicts": verdicts, "option_sets": len(osets), "blocks": len(texts),
        "explanation": "states = (specification, encoder option set) instances whose whole model set was shown to decode to realizing "
                       "sequences (inclusion query UNSAT, hard constraints themselves checked satisfiable for non-vacuity); "
                       "transitions = instances generated",
        "functions": ["smt_encoding.block_optimizer.BlockOptimizer (FullEncoding.generate_full_encoding, to_smt2)",
                      "BlockOptimizer._rebuild_block_from_solver / SolverFromExecutable.get_value"],
        "stubs": ["the solver is never run: the emitted text is parsed by z3's SMT-LIB front end"],
    }
    rep.assumptions = ["specifications with init_progr_len <= %d" % MAX_LEN, "z3's parser as well-formedness oracle (declared once, sorts, arities)"]
    sys.exit(rep.finish())


if __name__ == "__main__":
    main()
