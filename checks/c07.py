"""C07 -- the Max-SMT problem keeps an optimal program and prices it correctly.

Per small specification (init_progr_len <= 7), criterion and encoder option set:
 1. feasibility: if E3 (own synthesis encoding, sequence free) finds a realizing sequence within the bounds, the hard
    constraints of the real encoding must be satisfiable;
 2. optimum: z3's Optimize is run on the *real* emitted problem (hard constraints + assert-soft lines, parsed from the
    SMT-LIB text); the optimal model is decoded by the tool's own reader and priced with the independent cost table; this
    price must equal the minimum of the same price over all realizing sequences, computed by Optimize over E3;
 3. neutrality: since (2) is checked against the same E3 minimum for every option set (order bounds and conflicts on/off,
    memory encoding, grouped/direct soft constraints, optional pruning constraints), no option changes the optimum."""
import copy
import sys
import time

import z3

from vlib import families as F
from vlib import gasol, pool, report, realize, synth, cost
from vlib.smt import Stats
from checks import c06

STATS = Stats()
MAX_LEN = 7


def price(spec, iid, crit, push0):
    if iid == "NOP":
        return 0
    ins = {i["id"]: i for i in spec["user_instrs"]}.get(iid)
    if ins is None:
        name, value = iid, None
    else:
        name = ins["disasm"]
        value = "%x" % int(ins["value"][0]) if name == "PUSH" and "value" in ins else (None if "value" not in ins else str(ins["value"][0]))
    if crit == "length":
        return 1
    if crit == "size":
        return cost.bytes_of(name, value, push0)
    return cost.gas_min(name, value, push0)


def e3_minimum(spec, n, bs, crit, push0):
    S = synth.Synth(spec, n, bs, prefix="m")
    opt = z3.Optimize()
    opt.set("timeout", 30000)
    opt.add(*S.domain)
    opt.add(S.realizes)
    table = [price(spec, a, crit, push0) for a in S.alphabet]
    total = z3.Sum([z3.Sum([z3.If(t == k, table[k], 0) for k in range(len(table))]) for t in S.t]) if S.t else z3.IntVal(0)
    h = opt.minimize(total)
    t0 = time.time()
    r = str(opt.check())
    STATS.record("c07:e3min", r, "z3opt", time.time() - t0)
    if r != "sat":
        return r, None, None
    m = opt.model()
    return "sat", m.eval(total, model_completion=True).as_long(), S.sequence(m)


def instance(spec, name, opts, crit, ref):
    from smt_encoding.block_optimizer import BlockOptimizer
    p = gasol.params()
    for k, v in opts.items():
        setattr(p, k, v)
    p.criteria = crit
    rec = {"name": name, "opts": c06.optname(opts) + ("/direct_soft" if opts.get("direct_soft") else ""), "crit": crit, "verdict": None}
    try:
        with gasol.Silence():
            bo = BlockOptimizer(name, copy.deepcopy(spec), p, 2)
            lines = list(bo._solver.to_smt2())
    except Exception as e:
        rec["verdict"] = "encoder-raised"
        rec["why"] = "%s: %s" % (type(e).__name__, str(e)[:150])
        return rec
    text = "\n".join(l for l in lines if not l.strip().startswith(("(check-sat", "(get-", "(set-option", "(set-logic")))
    opt = z3.Optimize()
    opt.set("timeout", 30000)
    try:
        opt.from_string(text)
    except z3.Z3Exception as e:
        rec["verdict"] = "ill-formed"
        rec["why"] = str(e)[:200]
        return rec
    t0 = time.time()
    r = str(opt.check())
    STATS.record("c07:optimum", r, "z3opt", time.time() - t0)
    feas, ref_min, ref_seq = ref
    if r == "unsat":
        if feas == "sat":
            rec["verdict"] = "infeasible-encoding"
            rec["why"] = "a realizing sequence within the bounds exists (%s) but the hard constraints are unsatisfiable" % ref_seq
        else:
            rec["verdict"] = "both-infeasible"
        return rec
    if r != "sat":
        rec["verdict"] = "undecided"
        return rec
    m = opt.model()
    enc = bo._full_encoding
    theta = {k: v.id for k, v in enc.theta_to_instr.items()}
    first, last = enc._bounds.first_position_sequence, enc._bounds.last_position_sequence
    uf = opts["encode_terms"] == "uninterpreted_uf"
    lines_m = []
    if uf:
        T = z3.DeclareSort("T")
        for j in range(first, last + 1):
            lines_m.append("(define-fun t_%d () T\n    %s)" % (j, m.eval(z3.Const("t_%d" % j, T), model_completion=True)))
        for k in theta:
            lines_m.append("(define-fun theta_%d () T\n    %s)" % (k, m.eval(z3.Const("theta_%d" % k, T), model_completion=True)))
    else:
        for j in range(first, last + 1):
            lines_m.append("(define-fun t_%d () Int\n    %s)" % (j, m.eval(z3.Int("t_%d" % j), model_completion=True)))
    bo._solver._model = "sat\n(model\n" + "\n".join(lines_m) + "\n)"
    try:
        ids = [i for i in bo._rebuild_block_from_solver() if i != "NOP"]
    except Exception as e:
        rec["verdict"] = "harness-error"
        rec["why"] = "model reader failed: %r" % (e,)
        return rec
    ok, why, _ = realize.simulate(spec, ids, max(spec["max_sk_sz"], len(spec["src_ws"]), len(spec["tgt_ws"])))
    if not ok:
        rec["verdict"] = "optimum-not-realizing"
        rec["why"] = "optimal model decodes to %s: %s" % (ids, why)
        return rec
    got = sum(price(spec, i, crit, p.push0) for i in ids)
    rec["ids"], rec["price"], rec["ref"] = ids, got, ref_min
    if feas != "sat":
        rec["verdict"] = "harness-error"
        rec["why"] = "the encoding has a realizing model %s but E3 is %s" % (ids, feas)
    elif got != ref_min:
        rec["verdict"] = "suboptimal" if got > ref_min else "harness-error"
        rec["why"] = "the optimum of the emitted problem decodes to %s priced %d (%s); the best realizing sequence %s costs %d" % (ids, got, crit, ref_seq, ref_min)
    else:
        rec["verdict"] = "optimal"
    return rec


def job(j):
    text, combos = j
    recs = []
    p = gasol.params()
    refs = {}
    for opts, crit in combos:
        for k, v in opts.items():
            setattr(p, k, v)
        p.criteria = crit
        for b in gasol.parse_plain(text):
            try:
                sfs, subs = gasol.sfs_of(b)
            except Exception:
                continue
            for name, spec in sfs.items():
                if not 1 <= spec["init_progr_len"] <= MAX_LEN or spec["max_sk_sz"] < 1:
                    continue
                key = (name, crit, repr(sorted((i["id"], tuple(i["inpt_sk"])) for i in spec["user_instrs"])), tuple(spec["tgt_ws"]),
                       spec["init_progr_len"], spec["max_sk_sz"])
                if key not in refs:
                    refs[key] = e3_minimum(spec, spec["init_progr_len"], spec["max_sk_sz"], crit, p.push0)
                rec = instance(spec, name, opts, crit, refs[key])
                rec["text"] = text
                recs.append(rec)
    return {"recs": recs}


def main():
    tier = report.tier()
    rep = report.Report("C07", "model_checking")
    texts = F.f_exh(2)[:: (2 if tier == "quick" else 1)] + F.consuming_singles(["ADD", "SUB", "AND", "ISZERO", "LT", "SHL"])[::3]
    texts += F.f_mem((2,), deltas=[0])[::4]
    texts += F.f_mem_dataflow(deltas=(0,))[:: (6 if tier == "quick" else 2)]
    # nullary instructions needed twice, ternary instructions with a computed third operand
    texts += ["CALLER CALLER", "CALLVALUE DUP1 ISZERO", "ADDRESS DUP1 ADD", "CALLER DUP1 DUP1", "TIMESTAMP CALLER TIMESTAMP",
              "SWAP2 ISZERO SWAP2 ADDMOD", "SWAP2 ISZERO SWAP2 MULMOD", "DUP3 ISZERO DUP3 DUP3 ADDMOD", "ISZERO SWAP2 SWAP1 ADDMOD",
              "DUP3 DUP3 DUP3 ADDMOD", "SWAP1 ISZERO SWAP1 DUP3 MULMOD"]
    texts += ["%s %s %s" % (a, op, b) for op in ("SUB", "LT", "DIV", "SHL", "ADD", "AND") for a in ("DUP1", "DUP2", "PUSH 1", "SWAP1")
              for b in ("DUP1", "DUP2", "SWAP1", "POP")]
    texts += ["PUSH 0 DUP2 ADD PUSH 3 MUL", "DUP2 DUP2 SUB SWAP1 POP", "DUP3 DUP3 MSTORE DUP2 MLOAD", "DUP2 DUP2 SSTORE DUP1 SLOAD",
              "CALLER DUP1 AND", "PUSH 1 PUSH 2 ADD DUP2 MUL", "DUP1 DUP1 MUL DUP1 ADD", "SWAP2 SWAP1 POP", "PUSH 0 PUSH 0 ADD DUP2 SSTORE"]
    texts = list(dict.fromkeys(texts))
    base = [o for o in c06.option_sets(tier) if not o["push_basic"]]
    combos_all = []
    for o in base:
        for ds in (False, True):
            oo = dict(o)
            oo["direct_soft"] = ds
            for crit in ("gas", "size", "length"):
                combos_all.append((oo, crit))
    per = 9 if tier == "quick" else 36
    jobs = []
    for i, t in enumerate(texts):
        jobs.append((t, [combos_all[(i * per + k) % len(combos_all)] for k in range(per)]))
    results, _ = pool.run([(gasol.optset("none", "gas", True, True, "z3"), jobs, 12)], "checks.c07:job", job_timeout=1200)
    instances = optimal = 0
    verdicts = {}
    samples = []
    for o, j, r in results:
        if "recs" not in r:
            verdicts["harness"] = verdicts.get("harness", 0) + 1
            continue
        for rec in r["recs"]:
            instances += 1
            v = rec["verdict"]
            verdicts[v] = verdicts.get(v, 0) + 1
            if v == "optimal":
                optimal += 1
                if len(samples) < 6 and len(rec.get("ids", [])) >= 2:
                    samples.append({"block": rec["text"], "criterion": rec["crit"], "encoder_options": rec["opts"], "optimum": rec["ids"], "price": rec["price"]})
            elif v in ("suboptimal", "infeasible-encoding", "optimum-not-realizing"):
                rep.violation("%s:%s:%s:%s" % (v, rec["text"], rec["crit"], rec["opts"]), rec["why"] + " [block %s, criterion %s, encoder options %s]" % (rec["text"], rec["crit"], rec["opts"]), rec)
            elif v == "harness-error":
                rep.harness_error("%s (%s, %s): %s" % (rec["text"], rec["crit"], rec["opts"], rec.get("why")))
            elif v == "ill-formed":
                pass        # well-formedness is C06's subject
    rep.coverage = {
        "states": max(1, optimal), "transitions": max(1, instances), "traces_validated_against_impl": optimal,
        "samples": samples or [{"note": "none"}], "verdicts": verdicts, "blocks": len(texts), "option_criterion_combinations": len(combos_all),
        "explanation": "states = (specification, criterion, encoder option set) instances whose Max-SMT optimum (z3 Optimize on the real "
                       "assert-soft problem) decodes to a realizing sequence whose independent price equals the minimum over all realizing "
                       "sequences within the bounds (z3 Optimize over E3); transitions = instances generated",
        "functions": ["BlockOptimizer / FullEncoding (hard + soft constraints, bounds, pruning options)", "BlockOptimizer._rebuild_block_from_solver"],
    }
    rep.assumptions = ["init_progr_len <= 7, max_sk_sz >= 1, -push-basic excluded (see the C06 findings)",
                       "prices from vlib.cost: gas of context dependent instructions at their minimum"]
    sys.exit(rep.finish())


if __name__ == "__main__":
    main()
