"""C18 -- formula constructors preserve truth value; emitted text matches the formula; == implies equivalence.

Shapes are enumerated (bounded-exhaustive, fixed); valuations are decided by z3: for each shape the formula built
through the real add_* constructors, its SMT-LIB rendering parsed back by z3, and the raw tree under an independent
connective semantics must agree for every valuation (one `exists valuation. differ` query each)."""
import itertools
import sys
import time

import z3

from vlib import gasol, pool, report
from vlib.smt import Stats

BOOL_ATOMS = ["b0", "b1", "b2", "b3"]
INT_ATOMS = ["i0", "i1"]
INT_CONSTS = [0, 1, 2]

# raw trees: ("atomb", name) ("atomi", name) ("lit", bool) ("int", n) ("appi"/"appb", function name, int args...)
# (connective, args...)
_I0, _I1 = ("atomi", "i0"), ("atomi", "i1")
APPS_INT = [("appi", "f", _I0, _I1), ("appi", "f", _I1, _I0), ("appi", "f", _I0, _I0)]     # applications of f: Int x Int -> Int
APPS_BOOL = [("appb", "g", _I0, _I1), ("appb", "g", _I1, _I0)]                                # applications of g: Int x Int -> Bool
LEAF_KINDS = ("atomb", "atomi", "lit", "int", "appi", "appb")


def sort_of(t):
    k = t[0]
    if k in ("atomb", "lit", "appb"):
        return "B"
    if k in ("atomi", "int", "appi"):
        return "I"
    return "B"


def leaves_bool(atoms=BOOL_ATOMS, apps=False):
    return [("atomb", a) for a in atoms] + [("lit", True), ("lit", False)] + (APPS_BOOL if apps else [])


def leaves_int(atoms=INT_ATOMS, consts=INT_CONSTS, apps=False):
    return [("atomi", a) for a in atoms] + [("int", c) for c in consts] + (APPS_INT if apps else [])


def combos(boolpool, intpool, nary=(2, 3), mixed_literals=True):
    out = []
    for a in boolpool:
        out.append(("not", a))
    for n in nary:
        for args in itertools.product(boolpool, repeat=n):
            out.append(("and",) + args)
            out.append(("or",) + args)
    for a, b in itertools.product(boolpool, repeat=2):
        out.append(("=>", a, b))
        out.append(("=", a, b))
    for a, b in itertools.product(intpool, repeat=2):
        out.append(("=", a, b))
        out.append(("<", a, b))
        out.append(("<=", a, b))
        out.append(("distinct", a, b))
    for args in itertools.product(intpool, repeat=3):
        out.append(("distinct",) + args)
    for a, b in itertools.product(boolpool, repeat=2):
        out.append(("distinct", a, b))
    if mixed_literals:
        # the explicitly mentioned ill-sorted case: equality between a boolean and an integer literal
        for bl in (True, False):
            for n in INT_CONSTS:
                out.append(("=", ("lit", bl), ("int", n)))
                out.append(("=", ("int", n), ("lit", bl)))
    return out


def family(tier):
    """fixed list of raw trees"""
    l0b, l0i = leaves_bool(), leaves_int()
    depth2 = combos(l0b, l0i)
    # applications with permuted / repeated arguments: f(x,y), f(y,x), f(x,x) are three different terms
    app_cmp = []
    for a, b in itertools.product(APPS_INT + [("int", 0), _I0], repeat=2):
        if a[0] == "appi" or b[0] == "appi":
            app_cmp += [("=", a, b), ("<", a, b), ("<=", a, b), ("distinct", a, b)]
    app_b = APPS_BOOL + app_cmp
    depth2 += app_cmp
    for a, b in itertools.product(APPS_BOOL + [("atomb", "b0"), ("lit", True), ("lit", False)], repeat=2):
        if a[0] == "appb" or b[0] == "appb":
            depth2 += [("and", a, b), ("or", a, b), ("=>", a, b), ("=", a, b), ("distinct", a, b)]
    depth2 += [("not", a) for a in app_b]
    for a, b in itertools.product(app_cmp[:: (3 if tier == "quick" else 1)], [("atomb", "b0"), ("lit", True), ("lit", False)] + app_cmp[:6]):
        depth2 += [("=>", a, b), ("and", a, b), ("or", ("not", a), b)]
    small_b = leaves_bool(BOOL_ATOMS[:2])
    small_i = leaves_int(INT_ATOMS[:1], [0, 1])
    s1 = combos(small_b, small_i, nary=(2,), mixed_literals=True)
    s1 = [t for t in s1 if not (t[0] == "distinct" and len(t) == 4)]
    pool3 = l0b + s1
    if tier == "quick":
        pool3 = l0b[:3] + [("lit", True), ("lit", False)] + s1[::2]
    depth3 = []
    for a in pool3:
        depth3.append(("not", a))
    for a, b in itertools.product(pool3, repeat=2):
        depth3.append(("and", a, b))
        depth3.append(("or", a, b))
        depth3.append(("=>", a, b))
        depth3.append(("=", a, b))
    tern = pool3[::4] if tier == "thorough" else pool3[::7]
    for args in itertools.product(tern, repeat=3):
        depth3.append(("and",) + args)
        depth3.append(("or",) + args)
    # integer comparisons never nest (their arguments are terms), so depth 3 is boolean structure only
    # depth 4, at most 6 nodes: spines over unary/binary connectives with small leaves
    leaves4 = [("atomb", "b0"), ("atomb", "b1"), ("lit", True), ("lit", False)]

    def trees(nodes, depth):
        if nodes <= 0:
            return []
        res = []
        if nodes == 1:
            return list(leaves4)
        if depth <= 1:
            return []
        for t in trees(nodes - 1, depth - 1):
            res.append(("not", t))
        for ln in range(1, nodes - 1):
            rn = nodes - 1 - ln
            for l in trees(ln, depth - 1):
                for r in trees(rn, depth - 1):
                    for c in ("and", "or", "=>", "="):
                        res.append((c, l, r))
        return res

    def depth_of(t):
        if t[0] in LEAF_KINDS:
            return 1
        return 1 + max(depth_of(a) for a in t[1:])

    depth4 = []
    for n in range(4, 7):
        for t in trees(n, 4):
            if depth_of(t) == 4:
                depth4.append(t)
    if tier == "quick":
        depth4 = depth4[::5]
    return depth2 + depth3 + depth4


# ------------------------------------------------------------------------------------------------- semantics

def z3_atoms():
    env = {a: z3.Bool(a) for a in BOOL_ATOMS}
    env.update({a: z3.Int(a) for a in INT_ATOMS})
    env["f"] = z3.Function("f", z3.IntSort(), z3.IntSort(), z3.IntSort())
    env["g"] = z3.Function("g", z3.IntSort(), z3.IntSort(), z3.BoolSort())
    return env


def raw_to_z3(t, env):
    """independent semantics of the unsimplified tree"""
    k = t[0]
    if k in ("atomb", "atomi"):
        return env[t[1]]
    if k == "lit":
        return z3.BoolVal(t[1])
    if k == "int":
        return z3.IntVal(t[1])
    if k in ("appi", "appb"):
        return env[t[1]](*[raw_to_z3(a, env) for a in t[2:]])
    args = [raw_to_z3(a, env) for a in t[1:]]
    if k == "not":
        return z3.Not(args[0])
    if k == "and":
        return z3.And(*args)
    if k == "or":
        return z3.Or(*args)
    if k == "=>":
        return z3.Implies(args[0], args[1])
    if k in ("=", "distinct"):
        sorts = {a.sort().name() for a in args}
        if len(sorts) > 1:
            # a boolean and an integer are never equal
            return z3.BoolVal(k == "distinct")
        return args[0] == args[1] if k == "=" else z3.Distinct(*args)
    if k == "<":
        return args[0] < args[1]
    if k == "<=":
        return args[0] <= args[1]
    raise ValueError(k)


_CONSTS = {}


def real_consts():
    if not _CONSTS:
        from smt_encoding.constraints.function import Const, Sort
        for a in BOOL_ATOMS:
            _CONSTS[a] = Const(a, Sort.boolean)
        for a in INT_ATOMS:
            _CONSTS[a] = Const(a, Sort.integer)
    return _CONSTS


def real_function(name):
    from smt_encoding.constraints.function import Function, Sort
    return Function(name, Sort.integer, Sort.integer, Sort.integer if name == "f" else Sort.boolean)


def construct(t):
    """the formula built through the real constructors, bottom-up"""
    import smt_encoding.constraints.connector_factory as cf
    k = t[0]
    if k in ("atomb", "atomi"):
        return real_consts()[t[1]]
    if k in ("lit", "int"):
        return t[1]
    if k in ("appi", "appb"):
        return real_function(t[1])(*[construct(a) for a in t[2:]])     # a fresh Function object each time, as the encoder does
    args = [construct(a) for a in t[1:]]
    fn = {"not": cf.add_not, "and": cf.add_and, "or": cf.add_or, "=>": cf.add_implies, "=": cf.add_eq,
          "<": cf.add_lt, "<=": cf.add_leq, "distinct": cf.add_distinct}[k]
    return fn(*args)


def built_to_z3(f, env):
    """read a constructed formula object back (independent walk over the public attributes)"""
    from smt_encoding.constraints.connector import Connector
    from smt_encoding.constraints.function import ExpressionReference
    if type(f) == bool:
        return z3.BoolVal(f)
    if type(f) == int:
        return z3.IntVal(f)
    if isinstance(f, ExpressionReference):
        if len(f.arguments) == 0:
            return env[str(f.func)]
        return env[str(f.func)](*[built_to_z3(a, env) for a in f.arguments])
    if isinstance(f, Connector):
        return raw_to_z3((f.connector_name,) + tuple(("z3", built_to_z3(a, env)) for a in f.arguments), _Pass())
    raise ValueError("unexpected object %r" % (f,))


class _Pass(dict):
    pass


_orig_raw = raw_to_z3


def raw_to_z3(t, env):       # noqa: F811  (adds the pass-through leaf used by built_to_z3)
    if t[0] == "z3":
        return t[1]
    return _orig_raw(t, env)


DECLS = "".join("(declare-fun %s () Bool)\n" % a for a in BOOL_ATOMS) + \
        "".join("(declare-fun %s () Int)\n" % a for a in INT_ATOMS)


def text_to_z3(text, env):
    decls = {a: env[a] for a in env}
    r = z3.parse_smt2_string("(assert %s)" % text, decls=decls)
    return r[0]


STATS = Stats()


def differ(a, b):
    """exists valuation. a != b"""
    s = z3.Solver()
    s.set("timeout", 5000)
    s.add(a != b)
    t0 = time.time()
    r = str(s.check())
    STATS.record("c18", r, "z3py", time.time() - t0)
    if r == "sat":
        m = s.model()
        return "sat", {str(d): str(m[d]) for d in m.decls()}
    return r, None


def show(t):
    k = t[0]
    if k in ("atomb", "atomi"):
        return t[1]
    if k == "lit":
        return "true" if t[1] else "false"
    if k == "int":
        return str(t[1])
    if k in ("appi", "appb"):
        return "(%s %s)" % (t[1], " ".join(show(a) for a in t[2:]))
    return "(%s %s)" % (k, " ".join(show(a) for a in t[1:]))


def job(j):
    tier, lo, hi = j
    from smt_encoding.solver.solver_from_executable import translate_formula
    fam = family(tier)[lo:hi]
    env = z3_atoms()
    out = {"n": 0, "simplified": 0, "bad": [], "inconclusive": 0, "eq_pairs": 0, "samples": []}
    built = []
    for t in fam:
        out["n"] += 1
        raw = raw_to_z3(t, env)
        try:
            f = construct(t)
        except Exception as e:
            out["bad"].append({"kind": "raises", "tree": show(t), "what": "%s: %s" % (type(e).__name__, e)})
            continue
        try:
            fz = built_to_z3(f, env)
        except Exception as e:
            out["bad"].append({"kind": "unreadable", "tree": show(t), "what": repr(e)})
            continue
        if not isinstance(fz, z3.BoolRef):
            out["bad"].append({"kind": "sort", "tree": show(t), "what": "constructed formula is not boolean: %s" % f})
            continue
        text = translate_formula(f)
        changed = " ".join(text.split()) != show(t)
        if changed:
            out["simplified"] += 1
        r, m = differ(fz, raw)
        if r == "sat":
            out["bad"].append({"kind": "value", "tree": show(t), "built": text, "valuation": m,
                               "what": "constructed formula differs from the unsimplified tree"})
        elif r != "unsat":
            out["inconclusive"] += 1
        try:
            tz = text_to_z3(text, env)
            r2, m2 = differ(tz, raw)
            if r2 == "sat":
                out["bad"].append({"kind": "text", "tree": show(t), "built": text, "valuation": m2,
                                   "what": "emitted text parses to a different formula"})
            elif r2 != "unsat":
                out["inconclusive"] += 1
        except z3.Z3Exception as e:
            out["bad"].append({"kind": "text-ill-formed", "tree": show(t), "built": text, "what": str(e)[:200]})
        if changed and len(out["samples"]) < 3:
            out["samples"].append({"tree": show(t), "constructed": text})
        built.append((t, f, fz))
    # structural equality implies equal truth value: adjacent window of constructed formulas + argument permutations
    from smt_encoding.constraints.connector import Connector
    for idx in range(len(built)):
        t1, f1, z1 = built[idx]
        for jdx in range(idx + 1, min(idx + 40, len(built))):
            t2, f2, z2 = built[jdx]
            try:
                same = (f1 == f2)
            except Exception as e:
                out["bad"].append({"kind": "eq-raises", "tree": show(t1), "other": show(t2), "what": repr(e)})
                continue
            if same:
                out["eq_pairs"] += 1
                if not z1.eq(z2):
                    r, m = differ(z1, z2)
                    if r == "sat":
                        out["bad"].append({"kind": "eq", "tree": show(t1), "other": show(t2), "valuation": m,
                                           "what": "structurally equal formulas differ in truth value"})
    out["stats"] = STATS.as_dict()
    STATS.reset()
    return out


def classify(b):
    """canonical identity of a failure for the known-findings file"""
    return "%s:%s" % (b["kind"], b["tree"])


def main():
    tier = report.tier()
    rep = report.Report("C18", "translation_validation")
    gasol.import_repo()
    n = len(family(tier))
    step = 400
    jobs = [(tier, lo, min(n, lo + step)) for lo in range(0, n, step)]
    results, _ = pool.run([(None, jobs)], "checks.c18:job", job_timeout=600, chunk=1)
    stats = Stats()
    total = simplified = inconclusive = eq_pairs = 0
    samples = []
    for _, j, r in results:
        if "n" not in r:
            rep.harness_error("worker failed on %r: %s" % (j, str(r)[:300]))
            continue
        total += r["n"]
        simplified += r["simplified"]
        inconclusive += r["inconclusive"]
        eq_pairs += r["eq_pairs"]
        stats.merge(r["stats"])
        samples += r["samples"][:1]
        for b in r["bad"]:
            rep.violation(classify(b), b["what"] + (" (valuation %s)" % b["valuation"] if b.get("valuation") else ""), b)
    rep.coverage = {
        "programs": total, "disagreements_checked": simplified, "samples": samples[:10],
        "explanation": "programs = raw formula trees (depth <= 3 over and/or/not/=>/=/</<=/distinct, 4 boolean atoms, "
                       "2 integer terms, constants 0..2, true/false; depth 4 with <= 6 nodes); each is built through the real "
                       "add_* constructors and rendered by translate_formula; disagreements_checked = trees whose "
                       "constructed form differs textually from the raw tree (a simplification happened); for every tree "
                       "two z3 queries `exists valuation. differ` (object vs raw, parsed text vs raw)",
        "structurally_equal_pairs_checked": eq_pairs, "inconclusive_queries": inconclusive,
        "solver": stats.as_dict(), "exhaustive": True,
        "functions": ["connector_factory.add_and/add_or/add_not/add_implies/add_eq/add_lt/add_leq/add_distinct",
                      "Connector.__eq__", "ExpressionReference.__eq__", "solver_from_executable.translate_formula"],
        "bounds": "tier %s: %d trees" % (tier, n),
    }
    rep.assumptions = ["atoms range over Bool / mathematical Int", "a boolean and an integer are never equal"]
    sys.exit(rep.finish())


if __name__ == "__main__":
    main()
