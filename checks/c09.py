"""C09 -- non-optimizable code and metadata are preserved; emitted items are well formed.

1. id_to_asm_bytecode is executed from its source AST (vlib.pysym) for every kind of instruction id with a *symbolic
   operand value*: z3/structural check on every path that a PUSH is rendered as hex(v)[2:] of exactly the specified
   number (canonical hexadecimal, < 2^256 whenever the specification's value is), pseudo-push operands are the decimal
   or hexadecimal rendering of the specified value, plain opcodes keep their name, DUP/SWAP/POP ids pass through.
2. Whole documents through the real optimize_asm_in_asm_format under several option sets, read back by an independent
   reader: same contracts, version, .auxdata, .data, sourceList; every tag/JUMPDEST/jump/terminal/split item present in
   order with all fields; every emitted item well formed (known opcode, canonical PUSH constant < 2^256, DUP/SWAP 1..16,
   pseudo-push operands numerically equal to one of the same kind in the same input segment); the tool's parser re-reads
   the output to the same JSON.  (Rebuild lemmas over all block layouts are decided in C14.)"""
import ast
import json
import os
import shutil
import sys
import tempfile

import z3

from vlib import families as F
from vlib import gasol, pool, report
from vlib import evm_smt as E
from vlib import pysym as P

FIXED = {"tag", "JUMPDEST", "JUMP", "JUMPI", "STOP", "RETURN", "REVERT", "INVALID", "SELFDESTRUCT", "LOG0", "LOG1", "LOG2",
         "LOG3", "LOG4", "CALLDATACOPY", "CODECOPY", "EXTCODECOPY", "RETURNDATACOPY", "CALL", "STATICCALL", "DELEGATECALL",
         "CREATE", "CREATE2", "ASSIGNIMMUTABLE", "GAS"}
STORES = {"MSTORE", "MSTORE8", "SSTORE"}
PSEUDO = {"PUSH [tag]", "PUSH data", "PUSHIMMUTABLE", "PUSHLIB", "PUSH #[$]", "PUSH [$]"}


def sym_job(j):
    gasol.import_repo()
    with open(os.path.join(gasol.REPO, "solution_generation", "ids2asm.py")) as f:
        tree = ast.parse(f.read())
    out = {"obligations": 0, "discharged": 0, "bad": []}
    v = z3.BitVec("v", 256)
    sv = P.SymInt(z3.ZeroExt(P.WIDTH - 256, v))
    kinds = ["PUSH", "PUSH0", "PUSH data", "PUSHIMMUTABLE", "PUSH [tag]", "PUSH #[$]", "PUSH [$]", "PUSHLIB", "PUSHSIZE",
             "PUSHDEPLOYADDRESS", "ADD", "MLOAD", "SSTORE", "CALLER", "KECCAK256"]
    for d in kinds:
        ins = {"id": "X_0", "disasm": d}
        if d.startswith("PUSH") and d not in ("PUSHSIZE", "PUSHDEPLOYADDRESS"):
            ins["value"] = [sv]
        ex = P.Executor(tree, {})
        ex.opaque_constructors = {"AsmBytecode"}
        try:
            paths = ex.run("id_to_asm_bytecode", [{"X_0": ins}, "X_0"])
        except P.Unmodelled as e:
            out["bad"].append({"key": "id_to_asm_bytecode:%s:unmodelled" % d, "what": str(e), "harness": True})
            continue
        for pc, outcome, _ in paths:
            out["obligations"] += 1
            if outcome[0] != "return" or not isinstance(outcome[1], P.NativeNamespace):
                out["bad"].append({"key": "id_to_asm_bytecode:%s:outcome" % d, "what": "unexpected outcome %r" % (outcome,)})
                continue
            args = outcome[1]._args
            name, value = args[3], args[4]
            ok = True
            why = ""
            if d == "PUSH0":
                ok = name == "PUSH" and value == "0"
                why = "PUSH0 must be rebuilt as PUSH 0"
            elif d == "PUSH":
                ok = name == "PUSH" and isinstance(value, P.SymText) and value.kind == "hex" and value.skip == 2 and \
                    isinstance(value.value, P.SymInt) and value.value.t.eq(sv.t)
                why = "PUSH operand must be hex(value)[2:] of the specified number"
            elif d in ("PUSH data", "PUSHIMMUTABLE", "PUSH #[$]", "PUSH [$]"):
                ok = name == d and isinstance(value, P.SymText) and value.kind == "hex" and value.skip == 2 and value.value.t.eq(sv.t)
                why = "%s operand must be the hexadecimal rendering of the specified value" % d
            elif d in ("PUSH [tag]", "PUSHLIB"):
                ok = name == d and isinstance(value, P.SymText) and value.kind == "dec" and value.skip == 0 and value.value.t.eq(sv.t)
                why = "%s operand must be the decimal rendering of the specified value" % d
            else:
                ok = name == d and value is None
                why = "%s must be emitted under its own name without operand" % d
            if ok:
                out["discharged"] += 1
            else:
                out["bad"].append({"key": "id_to_asm_bytecode:" + d, "what": "%s; got name %r operand %r" % (why, name, value)})
    for iid in ["DUP1", "DUP16", "SWAP1", "SWAP16", "POP"]:
        ex = P.Executor(tree, {})
        ex.opaque_constructors = {"AsmBytecode"}
        for pc, outcome, _ in ex.run("id_to_asm_bytecode", [{}, iid]):
            out["obligations"] += 1
            a = outcome[1]._args if outcome[0] == "return" else None
            if a and a[3] == iid and a[4] is None:
                out["discharged"] += 1
            else:
                out["bad"].append({"key": "id_to_asm_bytecode:" + iid, "what": "stack instruction id not passed through: %r" % (outcome,)})
    return out


# ------------------------------------------------------------------------------------------------ documents

def segments(code, fixed):
    """[(fixed item or None, [optimizable items...])]: the stream cut at non-optimizable items"""
    segs = [[None, []]]
    for it in code:
        if it["name"] in fixed:
            segs.append([it, []])
        else:
            segs[-1][1].append(it)
    return segs


def wellformed(it):
    n = it["name"]
    try:
        E.arity(n)
    except Exception:
        return "unknown opcode name %r" % n
    if n == "PUSH":
        try:
            E.push_value(it.get("value"))
        except E.Malformed as e:
            return str(e)
        v = str(it.get("value"))
        if len(v) > 1 and v[0] == "0":
            return "PUSH operand %r has leading zeros" % v
    if n.startswith("DUP") or n.startswith("SWAP"):
        k = n[3:] if n.startswith("DUP") else n[4:]
        if not k.isdigit() or not 1 <= int(k) <= 16:
            return "bad depth in %s" % n
    return None


def compare_code(cin, cout, fixed, where, problems, stats):
    si, so = segments(cin, fixed), segments(cout, fixed)
    if [s[0] for s in si] != [s[0] for s in so]:
        a = [s[0]["name"] if s[0] else None for s in si]
        b = [s[0]["name"] if s[0] else None for s in so]
        problems.append("%s: non-optimizable items differ (names %s... vs %s...)" % (where, a[:12], b[:12]) if a != b else
                        "%s: a non-optimizable item changed one of its fields" % where)
        return
    for (f, a), (_, b) in zip(si, so):
        stats["segments"] += 1
        if a != b:
            stats["changed_segments"] += 1
        pin = {E.pseudo_key(i["name"], i.get("value")) for i in a if i["name"] in PSEUDO}
        for it in b:
            stats["items"] += 1
            w = wellformed(it)
            if w:
                problems.append("%s: emitted item %s is not well formed: %s" % (where, json.dumps(it), w))
            if it["name"] in PSEUDO and E.pseudo_key(it["name"], it.get("value")) not in pin:
                problems.append("%s: emitted %s %s does not occur in the corresponding input segment" % (where, it["name"], it.get("value")))


def compare_asm(ain, aout, fixed, where, problems, stats):
    if (ain is None) != (aout is None):
        problems.append("%s: asm presence differs" % where)
        return
    if ain is None:
        return
    if set(ain.keys()) != set(aout.keys()):
        problems.append("%s: keys differ %s vs %s" % (where, sorted(ain.keys()), sorted(aout.keys())))
    for k in ain:
        if k == ".code":
            compare_code(ain[k], aout.get(k, []), fixed, where + "/.code", problems, stats)
        elif k == ".data":
            din, dout = ain[k], aout.get(k, {})
            if set(din.keys()) != set(dout.keys()):
                problems.append("%s: .data keys differ" % where)
            for dk in din:
                if isinstance(din[dk], dict):
                    compare_asm(din[dk], dout.get(dk), fixed, where + "/.data/" + dk, problems, stats)
                elif din[dk] != dout.get(dk):
                    problems.append("%s: data entry %s changed" % (where, dk))
        elif ain[k] != aout.get(k):
            problems.append("%s: %s changed" % (where, k))


def norm_push0(x):
    """the documented spelling: a zero push may be written {"name": "PUSH0"} or {"name": "PUSH", "value": "0"}"""
    if isinstance(x, dict):
        if x.get("name") == "PUSH0" and "value" not in x:
            y = dict(x)
            y["name"], y["value"] = "PUSH", "0"
            return {k: norm_push0(v) for k, v in y.items()}
        return {k: norm_push0(v) for k, v in x.items()}
    if isinstance(x, list):
        return [norm_push0(v) for v in x]
    return x


def synthetic_document(path):
    """a document with every pseudo-push kind (library references, immutables, sub-assembly references with hexadecimal
    operands >= a), a contract without asm, nested data and source lists"""
    def it(name, value=None, **kw):
        d = {"begin": 10, "end": 20, "name": name, "source": 0}
        if value is not None:
            d["value"] = value
        d.update(kw)
        return d
    h = lambda n: "%064X" % n
    code = [it("tag", "1"), it("JUMPDEST"), it("PUSH", "0"), it("PUSHLIB", "contracts/Lib.sol:MyLib"), it("ADD"), it("PUSH", "0"), it("ADD"),
            it("PUSHLIB", "contracts/Other.sol:Other"), it("AND"), it("PUSH #[$]", h(11)), it("ADD"), it("PUSH [$]", h(12)), it("PUSH", "0"), it("ADD"),
            it("MUL"), it("PUSH [tag]", "2"), it("JUMP", jumpType="[in]"),
            it("tag", "2"), it("JUMPDEST", modifierDepth=0), it("PUSHIMMUTABLE", h(0xABCDEF)), it("PUSH", "0"), it("ADD"), it("PUSH data", h(0x0A11)),
            it("PUSH", "1"), it("MUL"), it("PUSHSIZE"), it("PUSHDEPLOYADDRESS"), it("DUP2"), it("PUSH", "0"), it("ADD"), it("ASSIGNIMMUTABLE", h(0xABCDEF)),
            it("PUSH", "0"), it("DUP2"), it("ADD"), it("POP"), it("PUSH [tag]", "3"), it("JUMP"),
            # operands of other pseudo-pushes that coincide with the per-block numbering of library references (0, 1)
            it("tag", "3"), it("JUMPDEST"), it("PUSH", "0"), it("PUSHLIB", "contracts/Lib.sol:MyLib"), it("ADD"), it("PUSH [tag]", "1"), it("PUSH", "0"),
            it("ADD"), it("PUSHLIB", "contracts/Other.sol:Other"), it("AND"), it("PUSH [$]", h(0)), it("PUSH", "0"), it("ADD"), it("PUSH #[$]", h(1)),
            it("MUL"), it("PUSH data", h(1)), it("PUSH", "0"), it("ADD"), it("PUSH [tag]", "0"), it("PUSHIMMUTABLE", h(0)), it("PUSH", "1"), it("MUL"),
            it("POP"), it("POP"), it("STOP")]
    # a second, different stream: several code-bearing entries next to each other at the top level and nested, and a second
    # contract with code, so that streams cannot be mixed up without the skeleton comparison noticing
    code2 = [it("tag", "7"), it("JUMPDEST"), it("PUSH", "1"), it("PUSH", "0"), it("ADD"), it("DUP1"), it("PUSH", "2A"), it("LOG1"), it("PUSH", "0"),
             it("PUSH", "3"), it("MUL"), it("PUSH [tag]", "8"), it("JUMPI"), it("PUSH", "0"), it("DUP1"), it("REVERT"),
             it("tag", "8"), it("JUMPDEST"), it("CALLVALUE"), it("PUSH", "0"), it("ADD"), it("POP"), it("PUSH", "0"), it("SELFDESTRUCT")]
    leaf = {".code": [it("PUSH", "0"), it("DUP1"), it("ADD"), it("INVALID")], ".data": {}}
    leaf2 = {".auxdata": "beef", ".code": [it("PUSH", "5"), it("PUSH", "0"), it("OR"), it("PUSH", "0"), it("MSTORE"), it("STOP")], ".data": {}}
    sub = {".auxdata": "a264697066", ".code": list(code), ".data": {h(0x0A11): "6080", "0": leaf, "1": leaf2}}
    sub2 = {".auxdata": "a26469706673", ".code": list(code2), ".data": {"0": dict(leaf2)}}
    doc = {"version": "0.8.19+commit.7dd6d404",
           "contracts": {"a.sol:A": {"asm": {".code": list(code), ".data": {"0": sub, "1": "deadbeef", "2": sub2}, "sourceList": ["a.sol"]}},
                         "b.sol:I": {"asm": None},
                         "c.sol:C": {"asm": {".code": list(code2), ".data": {"0": sub2, "1": sub}, "sourceList": ["c.sol", "a.sol"]}}}}
    with open(path, "w") as f:
        json.dump(doc, f)
    return path


def doc_job(j):
    doc = j[0]
    synth_dir = None
    if doc == "<synthetic>":
        synth_dir = tempfile.mkdtemp(prefix="verif_c09s_")
        doc = synthetic_document(os.path.join(synth_dir, "synthetic.json_solc"))
    import gasol_asm
    from sfs_generator.parser_asm import parse_asm
    p = gasol.params()
    o = gasol._OPTS
    workdir = tempfile.mkdtemp(prefix="verif_c09_")
    out = {"doc": os.path.basename(doc), "problems": [], "stats": {"segments": 0, "changed_segments": 0, "items": 0}}
    try:
        base = os.path.join(workdir, "d")
        p.input_file, p.input_format = doc, "asm"
        p.optimized_file, p.seqs_file, p.blocks_file, p.log_file = base + "_o.json", base + "_s.csv", base + "_b.csv", base + ".log"
        p.generate_log = False
        p.contract = None
        with gasol.Silence():
            gasol_asm.optimize_asm_in_asm_format(p)
        with open(doc) as f:
            din = json.load(f)
        with open(p.optimized_file) as f:
            dout = json.load(f)
        fixed = set(FIXED) | (STORES if o["split"] == "storage" else set())
        probs = out["problems"]
        if set(din.keys()) != set(dout.keys()):
            probs.append("top-level keys differ: %s vs %s" % (sorted(din), sorted(dout)))
        if din.get("version") != dout.get("version"):
            probs.append("version changed")
        if set(din["contracts"]) != set(dout.get("contracts", {})):
            probs.append("contract set differs")
        for c in din["contracts"]:
            cin, cout = din["contracts"][c], dout.get("contracts", {}).get(c, {})
            for k in cin:
                if k != "asm" and cin[k] != cout.get(k):
                    probs.append("%s: field %s changed" % (c, k))
            compare_asm(cin.get("asm"), cout.get("asm"), fixed, c, probs, out["stats"])
        # the tool's own parser re-reads the output to the same document
        try:
            with gasol.Silence():
                again = parse_asm(p.optimized_file).to_json()
        except Exception as e:
            again = None
            probs.append("the tool's own parser cannot re-read the emitted document: %s: %s" % (type(e).__name__, str(e)[:100]))
        if again is not None and norm_push0(again) != norm_push0(dout):
            probs.append("parse_asm(output).to_json() differs from the output (beyond the PUSH 0 / PUSH0 spelling)")
        out["problems"] = probs[:20]
    finally:
        shutil.rmtree(workdir, ignore_errors=True)
        if synth_dir:
            shutil.rmtree(synth_dir, ignore_errors=True)
    return out


def job(j):
    if j[0] == "sym":
        return sym_job(j[1:])
    return doc_job(j[1:])


def main():
    tier = report.tier()
    rep = report.Report("C09", "other")
    docs = F.f_real_documents()
    osets = [gasol.optset("none", "gas", True, True, "greedy"), gasol.optset("storage", "size", True, False, "greedy"),
             gasol.optset("partition", "length", False, True, "greedy")]
    if tier == "thorough":
        osets += [gasol.optset("none", "size", False, False, "greedy"), gasol.optset("partition", "gas", True, True, "greedy"),
                  gasol.optset("storage", "gas", False, True, "greedy")]
    nd = 2 if tier == "quick" else 8
    tasks = [(gasol.optset(), [("sym",)], 1)]
    for k, o in enumerate(osets):
        tasks.append((o, [("doc", docs[(k * nd + i) % len(docs)]) for i in range(nd)] + [("doc", "<synthetic>")], 1))
    results, stats = pool.run(tasks, "checks.c09:job", job_timeout=1800)
    obligations = discharged = ndocs = segs = changed = items = 0
    for o, j, r in results:
        if j[0] == "sym":
            if "obligations" not in r:
                rep.harness_error("symbolic job failed: %s" % str(r)[:300])
                continue
            obligations += r["obligations"]
            discharged += r["discharged"]
            for b in r["bad"]:
                if b.get("harness"):
                    rep.harness_error(b["key"] + ": " + b["what"])
                else:
                    rep.violation(b["key"], b["what"], b)
        else:
            if "problems" not in r:
                rep.harness_error("document job %r failed: %s" % (j, str(r)[:300]))
                continue
            ndocs += 1
            segs += r["stats"]["segments"]
            changed += r["stats"]["changed_segments"]
            items += r["stats"]["items"]
            for pr in r["problems"]:
                rep.violation("doc:%s:%s:%s" % (r["doc"], gasol.optset_name(o), pr[:80]), pr, {"options": o, "document": j[1]})
    rep.coverage = {
        "explanation": "id_to_asm_bytecode executed symbolically for 15 instruction kinds + stack ids with a symbolic operand (%d path "
                       "obligations, %d discharged); %d whole documents optimized by the real tool and compared with the input by an "
                       "independent reader: %d segments between non-optimizable items (%d rewritten), %d emitted items checked for "
                       "well-formedness; rebuild lemmas over all small block layouts are decided in C14" % (obligations, discharged, ndocs, segs, changed, items),
        "obligations": obligations, "discharged": discharged, "evaluations": segs, "distinct_nontrivial": changed,
        "rule": "non-trivial = segment whose instructions were rewritten", "traces_validated_against_impl": ndocs,
        "samples": [{"document": os.path.basename(d)} for d in docs[:2]],
        "functions": ["ids2asm.id_to_asm_bytecode (AST)", "gasol_asm.optimize_asm_in_asm_format", "parser_asm.parse_asm", "AsmJSON.to_json"],
    }
    rep.assumptions = ["pseudo-push operands are compared by the number they denote (case and leading zeros of hash texts are "
                       "not significant to solc's assembly import)"]
    sys.exit(rep.finish())


if __name__ == "__main__":
    main()
