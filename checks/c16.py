"""C16 -- the numeric bounds published in a specification are valid.

For every specification the real front-end produces on the families, E3 (own stack-machine synthesis encoding, t free):
  exists realizing q with |q| <= init_progr_len and height <= max_sk_sz      must be SAT (witness replayed on the
                                                                             reference stack machine), and
  exists realizing q with |q| < min_length (resp. min_length_instrs, min_length_bounds)   must be UNSAT;
original_instrs must be the instruction sequence of the sub-block the specification was derived from."""
import sys
import time

import z3

from vlib import families as F
from vlib import gasol, pool, report, realize, synth
from vlib.smt import Stats

STATS = Stats()
MAX_LEN = 10


def query(S, timeout_ms, kind):
    s = z3.Solver()
    s.set("timeout", timeout_ms)
    s.add(*S.domain)
    s.add(S.realizes)
    t0 = time.time()
    r = str(s.check())
    STATS.record(kind, r, "z3py", time.time() - t0)
    return r, (s.model() if r == "sat" else None)


def check_spec(name, spec, sub_instrs, max_len):
    rec = {"name": name, "n": spec["init_progr_len"], "bs": spec["max_sk_sz"], "bad": [], "verdict": "ok", "rules": list(spec.get("rules", [])),
           "orig": spec.get("original_instrs", "")}
    if spec.get("original_instrs", "").split() != " ".join(sub_instrs).split():
        rec["bad"].append("original_instrs %r is not the sub-block %r" % (spec.get("original_instrs"), " ".join(sub_instrs)))
    n, bs = spec["init_progr_len"], spec["max_sk_sz"]
    if n > max_len:
        rec["verdict"] = "too-long"
        return rec
    try:
        S = synth.Synth(spec, n, bs)
    except Exception as e:
        rec["verdict"] = "unsupported"
        rec["why"] = repr(e)[:100]
        return rec
    if S.bs != max(bs, 1) and (len(spec["src_ws"]) > bs or len(spec["tgt_ws"]) > bs):
        rec["bad"].append("max_sk_sz %d is smaller than the source or target stack (%d / %d)" % (bs, len(spec["src_ws"]), len(spec["tgt_ws"])))
    r, m = query(S, 20000, "c16:feasible")
    if r == "unsat":
        rec["bad"].append("no realizing sequence of length <= init_progr_len = %d with stack <= max_sk_sz = %d exists" % (n, bs))
        # by how much is the bound short?  (classifies the violation: the rule discounts over-count by one per application)
        for d in (1, 2, 3):
            rd, md = query(synth.Synth(spec, n + d, bs), 20000, "c16:deficit")
            if rd == "sat":
                rec["deficit"] = d
                rec["bad"][-1] += "; the shortest realizing sequence is %d longer" % d
                break
            if rd != "unsat":
                break
        # is it the stack bound rather than the length bound?  the original sub-block is itself a realizing sequence of
        # length <= init_progr_len (when no rule shortened the bound): how many cells does it use?
        try:
            from vlib import blockcheck as _BC, evm_smt as _E
            toks = [_BC._tok2(t) for t in _BC.tokens_of_text(" ".join(sub_instrs))]
            need = _E.needed_depth(toks)[0]
            h = peak = max(need, len(spec["src_ws"]))
            for t in toks:
                a = _E.arity(t[0])
                h += a[1] - a[0]
                peak = max(peak, h)
            peak -= max(0, need - len(spec["src_ws"]))
            if peak > bs:
                rs, ms = query(synth.Synth(spec, n, peak), 20000, "c16:stack-deficit")
                if rs == "sat":
                    rec["stack_short"] = peak - bs
                    rec["bad"][-1] += "; with the %d cells the original sub-block itself uses, a sequence of length <= %d exists" % (peak, n)
        except Exception:                     # noqa: classification only
            pass
    elif r == "sat":
        seq = S.sequence(m)
        ok, why, _ = realize.simulate(spec, seq, S.bs)
        if not ok:
            rec["harness"] = "E3 witness %s rejected by the reference stack machine: %s" % (seq, why)
        rec["witness"] = seq
    else:
        rec["verdict"] = "undecided"
    for field in ("min_length", "min_length_instrs", "min_length_bounds"):
        ml = spec.get(field)
        if not isinstance(ml, int) or ml <= 0:
            continue
        if ml - 1 > max_len:
            continue
        # generous stack bound: a shorter sequence must not exist even with more stack
        S2 = synth.Synth(spec, ml - 1, max(bs, len(spec["src_ws"]) + 2))
        r2, m2 = query(S2, 20000, "c16:" + field)
        if r2 == "sat":
            seq = S2.sequence(m2)
            ok, why, _ = realize.simulate(spec, seq)
            if ok:
                rec["bad"].append("%s = %d but the sequence %s of length %d realizes the specification" % (field, ml, seq, len(seq)))
            else:
                rec["harness"] = "E3 witness %s rejected by the reference stack machine: %s" % (seq, why)
        elif r2 != "unsat":
            rec["verdict"] = "undecided"
    return rec


class _NoSolver:
    """stand-in for BlockOptimizer inside search_optimal (stub, in evidence): only the bound the solver would be handed matters"""
    def __init__(self, *a, **k):
        pass

    def optimize_block(self):
        from smt_encoding.block_optimizer import OptimizeOutcome
        return OptimizeOutcome.no_model, 0.0, None


def ub_job(j):
    """-ub-greedy: the real search_optimal tightens init_progr_len to the length of the greedy sequence; the tightened
    bound, together with the unchanged max_sk_sz, must still admit a realizing sequence"""
    import copy
    import gasol_asm
    recs = []
    real = gasol_asm.BlockOptimizer
    gasol_asm.BlockOptimizer = _NoSolver
    try:
        for b in gasol.parse_plain(j[1]):
            try:
                sfs, subs = gasol.sfs_of(b)
            except Exception:
                continue
            for name, spec in sfs.items():
                before = spec["init_progr_len"]
                work = copy.deepcopy(spec)
                with gasol.Silence():
                    try:
                        _, _, _, greedy_ids = gasol_asm.search_optimal(work, gasol.params(), 1, name)
                    except Exception as e:
                        recs.append({"name": name, "text": j[1], "verdict": "search-raised", "bad": [], "why": repr(e)[:100]})
                        continue
                n, bs = work["init_progr_len"], work["max_sk_sz"]
                rec = {"name": name, "text": j[1], "n": n, "bs": bs, "bad": [], "verdict": "ok", "tightened": n < before, "rules": [], "orig": spec.get("original_instrs", "")}
                if n < before and n <= MAX_LEN:
                    try:
                        S = synth.Synth(work, n, bs)
                        r, m = query(S, 20000, "c16:ub-greedy")
                    except Exception as e:
                        rec["verdict"] = "unsupported"
                        recs.append(rec)
                        continue
                    if r == "unsat":
                        rec["bad"].append("-ub-greedy tightens init_progr_len from %d to %d (greedy sequence %s), but no realizing sequence of that length "
                                          "fits max_sk_sz = %d" % (before, n, greedy_ids, bs))
                    elif r != "sat":
                        rec["verdict"] = "undecided"
                recs.append(rec)
    finally:
        gasol_asm.BlockOptimizer = real
    return {"recs": recs, "stats": STATS.as_dict()}


def job(j):
    from sfs_generator.utils import process_blocks_split
    kind = j[0]
    recs = []
    if kind == "ub":
        return ub_job(j)
    if kind == "text":
        blocks = gasol.parse_plain(j[1])
    else:
        blocks = [b for b in gasol.blocks_of_document(j[1])[j[2]:j[3]] if b.instructions_to_optimize_plain() != []]
    for b in blocks:
        try:
            sfs, subs = gasol.sfs_of(b)
        except Exception as e:
            recs.append({"verdict": "front-end-raised", "bad": [], "name": b.block_name})
            continue
        parts = process_blocks_split(subs)
        for name, spec in sfs.items():
            i = int(name.rsplit("_", 1)[1])
            rec = check_spec(name, spec, parts[i] if i < len(parts) else [], MAX_LEN)
            rec["text"] = j[1] if kind == "text" else spec.get("original_instrs", "")
            recs.append(rec)
    return {"recs": recs, "stats": STATS.as_dict()}


def main():
    tier = report.tier()
    rep = report.Report("C16", "model_checking")
    ops, pairs = F.rule_opcodes()
    both = sorted(set(pairs) | {(b, a) for a, b in pairs})
    texts = F.consuming_singles(ops + ["SMOD", "SAR"])
    texts += F.f_rule_singles(ops, contexts=("stack", "consumed"))[:: (4 if tier == "quick" else 1)]
    texts += F.f_rule_chains(ops, depth=3)[:: (2 if tier == "quick" else 1)]
    texts += F.f_rule_pairs(both, consts=[0, 1, F.MASK], contexts=("stack",))[:: (6 if tier == "quick" else 1)]
    texts += F.f_mem((2,), deltas=[0, 32])[:: (2 if tier == "quick" else 1)]
    texts += F.f_mem_consuming()
    texts += F.f_rule_existing()[:: (48 if tier == "quick" else 2)]
    texts += F.f_squares(sorted(set(ops) | {"MUL", "ADD", "EXP", "SUB", "DIV"}))
    texts += F.f_exh(2 if tier == "quick" else 3)
    texts += F.f_exh(3, vocab=F.V_EXH2)[:: (5 if tier == "quick" else 1)]
    if tier == "thorough":
        texts += F.f_exh(4, vocab=F.V_EXH2)[::16]
    if tier == "thorough":
        texts += F.f_mem((3,), deltas=[0, 16], ops=("MSTORE", "MLOAD", "MSTORE8"))
    texts = list(dict.fromkeys(texts))
    docs = F.f_real_documents()
    tasks = []
    osets = [gasol.optset("none", "gas", True, True, "greedy"), gasol.optset("none", "size", False, True, "greedy"),
             gasol.optset("storage", "gas", True, False, "greedy"), gasol.optset("partition", "length", True, True, "greedy")]
    for k, o in enumerate(osets):
        g = 1 if k == 0 else (5 if tier == "quick" else 3)
        jobs = [("text", t) for i, t in enumerate(texts) if i % g == 0]
        nd = 1 if tier == "quick" else 4
        for d in [docs[(k * nd + i) % len(docs)] for i in range(nd)]:
            for lo in range(0, 20 if tier == "quick" else 120, 20):
                jobs.append(("doc", d, lo, lo + 20))
        tasks.append((o, jobs, 100))
    ub = gasol.optset("none", "gas", True, True, "ub-greedy")
    tasks.append((ub, [("ub", t) for i, t in enumerate(texts) if i % (12 if tier == "quick" else 1) == 0], 300))
    results, _ = pool.run(tasks, "checks.c16:job", job_timeout=600)
    stats = Stats()
    specs = decided = tightened = 0
    verdicts = {}
    samples = []
    for o, j, r in results:
        on = gasol.optset_name(o)
        if "recs" not in r:
            verdicts["harness"] = verdicts.get("harness", 0) + 1
            continue
        if r.get("stats"):
            pass
        for rec in r["recs"]:
            specs += 1
            if rec.get("tightened"):
                tightened += 1
            verdicts[rec["verdict"]] = verdicts.get(rec["verdict"], 0) + 1
            if rec["verdict"] == "ok":
                decided += 1
                if len(samples) < 8 and rec.get("witness") and len(rec["witness"]) >= 3:
                    samples.append({"options": on, "sub_block": rec["orig"], "init_progr_len": rec["n"], "max_sk_sz": rec["bs"], "witness": rec["witness"]})
            if rec.get("harness"):
                rep.harness_error(rec["harness"])
            for b in rec["bad"]:
                key = "bounds:%s:%s" % (rec.get("text", rec["name"]), b[:40])
                if b.startswith("no realizing sequence of length <= init_progr_len"):
                    # mechanism-level identity: the set of rules whose accumulated discount makes the bound infeasible
                    # identity of the finding: the rule whose `discount_op += k` over-counts (its operands are consumed and
                    # need a POP, or the result needs a SWAP).  A violation is attributed to recorded rules only if the bound
                    # is short by at most one instruction per application of a recorded rule; anything else keeps its own key
                    import re as _re
                    apps = [_re.sub(r"^EVAL.*", "EVAL", r_) for r_ in rec.get("rules", [])]
                    d = rec.get("deficit")
                    known_apps = sorted(a for a in apps if rep.match_known("discount-overcount:rule=" + a))
                    if rec.get("stack_short"):
                        # the length bound is fine: max_sk_sz is below what the original sub-block itself uses
                        key = "stack-bound:max_sk_sz below the cells the original sub-block uses"
                    elif d is not None and known_apps and d <= len(known_apps):
                        key = "discount-overcount:rule=" + known_apps[0]
                    elif d == 1 and len(set(apps)) == 1:
                        key = "discount-overcount:rule=" + apps[0]
                    else:
                        key = "infeasible-init_progr_len:rules=%s:deficit=%s" % (",".join(sorted(set(apps))), d)
                rep.violation(key, b + " [sub-block %s, options %s]" % (rec.get("orig"), on),
                              {"options": o, "input": rec.get("text"), "core": rec.get("text")})
    # merge solver statistics of the last message of each worker unit (they are cumulative per process)
    seen = {}
    for o, j, r in results:
        if r.get("stats"):
            seen[id(r["stats"])] = r["stats"]
    rep.coverage = {
        "states": max(1, decided), "transitions": max(1, specs), "traces_validated_against_impl": decided,
        "samples": samples or [{"note": "none"}], "verdicts": verdicts,
        "explanation": "states = specifications for which all bound queries were decided (feasibility SAT with a witness replayed on "
                       "the reference stack machine; every published minimum UNSAT one below it); transitions = specifications seen; "
                       "synthesis queries are capped at length %d" % MAX_LEN,
        "functions": ["front-end generate_json (init_progr_len, max_sk_sz, original_instrs)", "json_with_dependencies.extended_json_with_minlength",
                      "gasol_asm.search_optimal (-ub-greedy tightening)"],
        "templates": len(texts),
        "ub_greedy": {"specifications_whose_bound_was_tightened_by_the_real_search_optimal": tightened,
                      "obligation": "a realizing sequence within (tightened init_progr_len, max_sk_sz) exists (E3, SAT)"},
        "stubs": ["-ub-greedy part only: gasol_asm.BlockOptimizer rebound to a class that answers no_model at once, so that search_optimal "
                  "performs its bound tightening without starting a solver"],
    }
    rep.assumptions = ["specifications longer than %d instructions are counted, not decided" % MAX_LEN]
    sys.exit(rep.finish())


if __name__ == "__main__":
    main()
