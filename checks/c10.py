"""C10 -- every block is processed to completion; a failure costs at most that block.

What a solver can decide here is which operands make the arithmetic kernel raise or build astronomically large integers:
a. evaluate_expression / evaluate_expression_ter / apply_transform are executed symbolically from their source AST
   (vlib.pysym, shared with C03) for all operands in [0, 2^256): every `raise` path and every violated integer-size
   obligation is a solver query; satisfiable ones are replayed natively.
b. Budget and exception freedom of the whole per-block pipeline cannot be encoded; it is exercised on the block families
   (boundary constants for division, modulo, shifts and exponentiation, NOT NOT, long ISZERO chains, 17+ live stack
   values) under four option sets with a CPU budget per block, through the real optimize_asm_contract.
c. Containment: a fault is injected into the specification generator for a marked block (harness-side rebinding); a
   two-block contract and a document must still be produced, the marked block unchanged, the other block identical to
   its fault-free optimisation."""
import copy
import json
import os
import shutil
import sys
import tempfile

from vlib import families as F
from vlib import gasol, pool, report
from vlib.smt import Stats

BUDGET_BASE, BUDGET_PER_INSTR = 5.0, 0.05


def kernel_job(j):
    from checks import c03
    if j[0] == "l1":
        r = c03.layer1_job(j[1:])
    else:
        r = c03.layer2_job(j[1:])
    bad = [b for b in r.get("bad", []) if ":raises" in b["key"] or "unbounded-integer" in b["key"] or "returns-None" in b["key"]]
    return {"obligations": r.get("obligations", 0), "discharged": r.get("discharged", 0), "bad": bad,
            "inconclusive": r.get("inconclusive", []), "stats": r.get("stats")}


def pipe_job(j):
    import time
    text = j[0]
    recs = []
    for b in gasol.parse_plain(text):
        t0 = time.process_time()          # CPU time of this worker: machine load must not turn into a finding
        res = gasol.optimize_one(b)
        dt = time.process_time() - t0
        n = len(b.instructions)
        rec = {"text": text, "secs": round(dt, 2), "bad": None}
        if res["error"]:
            rec["bad"] = "exception escapes the per-block pipeline: " + res["error"][:200]
        elif dt > BUDGET_BASE + BUDGET_PER_INSTR * n:
            rec["bad"] = "block of %d instructions took %.1f s (budget %.1f s)" % (n, dt, BUDGET_BASE + BUDGET_PER_INSTR * n)
        rec["reverted"] = res["reverted"]
        recs.append(rec)
    return {"recs": recs}


def budget_key(text):
    """identity of a budget violation.  One mechanism is recorded as a known finding (DESIGN 14): the front-end and the checker
    walk the *tree* of a term whose DAG shares sub-terms, so n repetitions of `DUP1 <binary op>` cost 2^n.  Such a block is
    identified by its shape (nothing but repetitions of DUP1 OP for one binary OP); any other block keeps its own key."""
    toks = text.split()
    if len(toks) >= 20 and len(toks) % 2 == 0 and set(toks[0::2]) == {"DUP1"} and len(set(toks[1::2])) == 1 and toks[1] in F.BINARY:
        return "budget:doubling-chain (DUP1 OP)^n, n >= 10"
    return "budget:%s" % text


POISON = "PUSH deadbeef"


def containment_job(j):
    """fault injection: the specification generator raises on blocks that contain the marker"""
    import gasol_asm
    import sfs_generator.ir_block as ir_block
    from sfs_generator.asm_contract import AsmContract
    good_text, where = j
    p = gasol.params()
    out = {"bad": [], "cases": 0}
    real = ir_block.evm2rbr_compiler

    def faulty(*a, **kw):
        blk = kw.get("block") or {}
        if any("deadbeef" in str(i).lower() for i in blk.get("instructions", [])):
            raise Exception("Error in RBR generation", 4)
        return real(*a, **kw)

    good = gasol.parse_plain(good_text, "goodc")[0]
    poison = gasol.parse_plain(POISON + " DUP2 ADD PUSH 0 ADD", "poisonc")[0]
    ref = gasol.optimize_one(copy.deepcopy(good))
    if ref["error"]:
        return out
    want = gasol.instrs_of(ref["out_block"])
    ir_block.evm2rbr_compiler = faulty
    try:
        for order in (("poison", "good"), ("good", "poison")):
            out["cases"] += 1
            c = AsmContract("verif.sol:C")
            blocks = [copy.deepcopy(poison) if k == "poison" else copy.deepcopy(good) for k in order]
            c.init_code = blocks
            try:
                with gasol.Silence():
                    nc, _, _, _ = gasol_asm.optimize_asm_contract(c, p)
            except Exception as e:
                out["bad"].append({"key": "containment:contract:%s" % "-".join(order),
                                   "what": "a block whose analysis fails aborts the whole contract: %s: %s" % (type(e).__name__, str(e)[:120])})
                continue
            got = {k: gasol.instrs_of(b) for k, b in zip(order, nc.init_code)}
            if got["poison"] != gasol.instrs_of(poison):
                out["bad"].append({"key": "containment:poison-changed", "what": "the failing block was not emitted unchanged"})
            if got["good"] != want:
                out["bad"].append({"key": "containment:neighbour:%s" % good_text,
                                   "what": "the neighbour of a failing block is emitted as %s, alone it is %s" % (gasol.plain_of(got["good"]), gasol.plain_of(want))})
        # whole document
        out["cases"] += 1
        workdir = tempfile.mkdtemp(prefix="verif_c10_")
        try:
            def code(text):
                items = []
                for t in text.split("|"):
                    parts = t.strip().split(" ")
                    if len(parts) == 3:
                        parts = [parts[0] + " " + parts[1], parts[2]]
                    it = {"begin": 1, "end": 2, "name": parts[0], "source": 0}
                    if len(parts) > 1:
                        it["value"] = parts[1]
                    items.append(it)
                return items
            doc = {"version": "0.8.19", "contracts": {"a.sol:A": {"asm": {
                ".code": code("tag 1|JUMPDEST|PUSH deadbeef|DUP2|ADD|PUSH 0|ADD|PUSH [tag] 2|JUMP|tag 2|JUMPDEST|PUSH 0|DUP2|ADD|PUSH 1|MUL|STOP"),
                ".data": {}}}}}
            path = os.path.join(workdir, "doc.json_solc")
            with open(path, "w") as f:
                json.dump(doc, f)
            p.input_file, p.input_format, p.contract = path, "asm", None
            p.optimized_file = os.path.join(workdir, "o.json")
            p.seqs_file, p.blocks_file, p.log_file, p.generate_log = os.path.join(workdir, "s.csv"), os.path.join(workdir, "b.csv"), os.path.join(workdir, "l.log"), False
            try:
                with gasol.Silence():
                    gasol_asm.optimize_asm_in_asm_format(p)
                with open(p.optimized_file) as f:
                    res = json.load(f)
                names = [i["name"] for i in res["contracts"]["a.sol:A"]["asm"][".code"]]
                first = names[:names.index("JUMP") + 1] if "JUMP" in names else names
                if [n.replace("PUSH0", "PUSH") for n in first] != ["tag", "JUMPDEST", "PUSH", "DUP2", "ADD", "PUSH", "ADD", "PUSH [tag]", "JUMP"]:
                    out["bad"].append({"key": "containment:document", "what": "document with a failing block: the failing block was changed: %s" % first})
                if names[-1] != "STOP" or "tag" not in names[len(first):]:
                    out["bad"].append({"key": "containment:document:rest", "what": "document with a failing block: the rest is damaged: %s" % names})
            except Exception as e:
                out["bad"].append({"key": "containment:document:raises", "what": "a failing block aborts the document: %s: %s" % (type(e).__name__, str(e)[:120])})
        finally:
            shutil.rmtree(workdir, ignore_errors=True)
    finally:
        ir_block.evm2rbr_compiler = real
    return out


def job(j):
    if j[0] in ("l1", "l2"):
        return kernel_job(j)
    if j[0] == "contain":
        return containment_job(j[1:])
    return pipe_job(j[1:])


def stress_blocks():
    M = F.MASK
    out = []
    big = ["%x" % M, "%x" % (M - 1), "%x" % (1 << 255), "ffffffffffffffff", "100", "ff", "0", "1"]
    for op in ("EXP", "SHL", "SHR", "SAR", "DIV", "SDIV", "MOD", "SMOD", "MUL", "ADDMOD", "MULMOD", "SIGNEXTEND", "BYTE"):
        for a in big:
            for b in big:
                if op in ("ADDMOD", "MULMOD"):
                    for c in ("0", "1", "%x" % M):
                        out.append("PUSH %s PUSH %s PUSH %s %s" % (c, b, a, op))
                else:
                    out.append("PUSH %s PUSH %s %s" % (b, a, op))
            out.append("PUSH %s %s" % (a, op) if op not in ("ADDMOD", "MULMOD") else "PUSH %s DUP2 DUP2 %s" % (a, op))
            out.append("PUSH %s SWAP1 %s" % (a, op) if op not in ("ADDMOD", "MULMOD") else "PUSH %s SWAP1 DUP3 %s" % (a, op))
    for k in range(1, 13):
        out.append("DUP1 " + " ".join(["ISZERO"] * k))
        out.append("DUP2 DUP2 LT " + " ".join(["ISZERO"] * k))
        out.append(" ".join(["NOT"] * k))
        out.append("DUP1 " + " ".join(["NOT"] * k) + " DUP2 ADD")
    # 17+ live stack values
    out.append(" ".join("PUSH %x" % (i + 1) for i in range(18)) + " " + " ".join(["ADD"] * 3))
    out.append(" ".join("CALLVALUE" for _ in range(18)) + " DUP16 DUP16 ADD SWAP16 POP")
    out.append(" ".join("DUP16" for _ in range(4)) + " ADD MUL SUB")
    out.append(" ".join("PUSH %x" % (i + 1) for i in range(20)) + " " + " ".join("POP" for _ in range(20)))
    return out


def main():
    tier = report.tier()
    rep = report.Report("C10", "other")
    gasol.import_repo()
    from checks import c03
    merged, gtree = c03.load_ast()
    lists = c03.extract_funct_lists(gtree)
    ops, pairs = F.rule_opcodes()
    l1 = [("l1", "binary", f) for f in lists.get("compute_binary", [])] + [("l1", "ternary", f) for f in lists.get("compute_ternary", [])]
    rule_ops = [o for o in ops if o in F.BINARY or o in ("ISZERO", "NOT")]
    l2 = [("l2", o, pat, False) for o in rule_ops for pat in (c03.PATTERNS2 if F._arity(o) == 2 else c03.PATTERNS1)]
    texts = stress_blocks()
    texts += F.consuming_singles(ops + ["SMOD", "SAR", "BYTE", "SIGNEXTEND"])
    texts += F.f_rule_chains(ops, depth=4)
    both = sorted(set(pairs) | {(b, a) for a, b in pairs})
    texts += F.f_rule_pairs(both, consts=[0, 1, F.MASK], contexts=("stack",))[:: (3 if tier == "quick" else 1)]
    texts += F.f_exh(2 if tier == "quick" else 3)
    texts += F.f_rule_siblings(ops, consts=(0, 1))[:: (2 if tier == "quick" else 1)]
    texts += F.f_rule_triples(both)[:: (4 if tier == "quick" else 1)]
    texts += F.deep_stack_blocks()
    texts += F.f_mem((2,), deltas=[0, 32])[::4]
    texts += F.f_rule_existing()[:: (6 if tier == "quick" else 1)]
    texts += F.f_mid_terminal()
    texts += F.f_rule_singles(ops, contexts=("both", "bothstore"))[:: (3 if tier == "quick" else 1)]
    texts += F.f_rule_pairs(both, consts=[0, 1], contexts=("both", "bothstore"))[:: (6 if tier == "quick" else 1)]
    texts += F.f_long_partition() if tier == "thorough" else F.f_long_partition(lengths=(23, 31, 47), max_stores=2)
    texts += F.f_mem_consuming()
    growth = F.f_growth_chains(ns=(10, 14, 18, 22) if tier == "thorough" else (10, 16, 22), ops=("ADD", "MUL", "AND", "SUB") if tier == "thorough" else ("ADD", "AND"))
    texts += growth
    texts = list(dict.fromkeys(texts))
    osets = [gasol.optset("none", "gas", True, True, "greedy"), gasol.optset("none", "size", True, False, "greedy"),
             gasol.optset("storage", "gas", False, True, "greedy"), gasol.optset("partition", "length", True, True, "greedy")]
    tasks = [(gasol.optset(), l1 + l2, 1)]
    for k, o in enumerate(osets):
        g = 1 if k == 0 or tier == "thorough" else 2
        tasks.append((o, [("pipe", t) for i, t in enumerate(texts) if i % g == 0], 300))
        tasks.append((o, [("contain", t, k) for t in ("PUSH 0 DUP2 ADD PUSH 1 MUL", "DUP2 DUP2 MSTORE DUP1 MLOAD", "DUP1 DUP1 XOR DUP2 ADD")], 1))
    results, stats = pool.run(tasks, "checks.c10:job", job_timeout=60)
    obligations = discharged = blocks = cases = slowest = 0
    inconclusive = []
    for o, j, r in results:
        on = gasol.optset_name(o)
        if j[0] in ("l1", "l2"):
            if "obligations" not in r:
                rep.harness_error("kernel job %r failed: %s" % (j, str(r)[:300]))
                continue
            obligations += r["obligations"]
            discharged += r["discharged"]
            inconclusive += r["inconclusive"]
            if r.get("stats"):
                stats.merge(r["stats"])
            for b in r["bad"]:
                rep.violation(b["key"], b["what"], b)
        elif j[0] == "contain":
            if "cases" not in r:
                rep.harness_error("containment job failed: %s" % str(r)[:300])
                continue
            cases += r["cases"]
            for b in r["bad"]:
                rep.violation(b["key"], b["what"] + " [options %s]" % on, {"options": o, **b})
        else:
            if "recs" not in r:
                kind = [k for k in r if k.startswith("harness")]
                rep.violation(budget_key(j[1]), "block exceeds the CPU/memory budget or kills the worker (%s) [options %s]" % (kind, on),
                              {"options": o, "input": j[1]})
                continue
            for rec in r["recs"]:
                blocks += 1
                slowest = max(slowest, rec["secs"])
                if rec["bad"]:
                    rep.violation(budget_key(rec["text"]) if "budget" in rec["bad"] else "pipeline:%s" % rec["text"], rec["bad"] + " [options %s]" % on, {"options": o, "input": rec["text"]})
    rep.coverage = {
        "explanation": "kernel: %d obligations (raise paths and integer-size obligations of evaluate_expression, "
                       "evaluate_expression_ter, apply_transform over all operands), %d discharged by z3; %d blocks through the "
                       "real optimize_asm_contract under 4 option sets within the CPU budget (slowest %.1f s); %d containment "
                       "cases with an injected analysis fault" % (obligations, discharged, blocks, slowest, cases),
        "obligations": obligations, "discharged": discharged, "evaluations": blocks + cases, "distinct_nontrivial": len(texts),
        "rule": "stress blocks: boundary constants for EXP/shifts/division/modulo, NOT and ISZERO chains up to 12, 17+ live values, "
                "rule pairs and chains; budget %.0f s + %.0f ms per instruction" % (BUDGET_BASE, BUDGET_PER_INSTR * 1000),
        "samples": [{"block": t} for t in texts[:3]], "inconclusive": inconclusive[:20], "solver": stats.as_dict(),
        "functions": ["gasol_optimization.evaluate_expression/_ter, apply_transform (AST)", "gasol_asm.optimize_asm_contract",
                      "gasol_asm.optimize_asm_in_asm_format"],
        "stubs": ["ir_block.evm2rbr_compiler rebinding (fault injection for the containment cases only)"],
    }
    rep.assumptions = ["termination and complexity of the string-processing front-end and of greedy are exercised on the families, "
                       "not decided for all inputs"]
    sys.exit(rep.finish())


if __name__ == "__main__":
    main()
