"""C04 -- the greedy back-end returns a sequence that realizes the specification.

Specifications come from the real front-end (rule/memory/exhaustive/real families, three split modes) and from a
natively enumerated family of hand-built well-formed specifications.  Whenever greedy_from_json reports error = 0:
 (i)  the id sequence is run on the reference stack machine of vlib.realize (all opcodes uninterpreted), and
 (ii) the assembly rebuilt by the real asm_from_ids is decided by SMT (E1 vs E2) to denote the specification under
      the schedule the sequence induces."""
import copy
import itertools
import sys

from vlib import families as F
from vlib import gasol, pool, report, realize
from vlib import blockcheck as BC


def run_greedy(spec):
    from greedy.block_generation import greedy_from_json
    from solution_generation.ids2asm import asm_from_ids
    s = copy.deepcopy(spec)
    with gasol.Silence():
        try:
            _, _, res, ids, error = greedy_from_json(s)
        except Exception as e:
            return {"verdict": "greedy-raised", "why": "%s: %s" % (type(e).__name__, e)}
    if error != 0 or ids is None:
        return {"verdict": "greedy-error"}
    ok, reason, info = realize.simulate(spec, ids)
    rec = {"ids": list(ids), "verdict": "ok" if ok else "not-realizing", "why": reason}
    if not ok:
        return rec
    try:
        asm = asm_from_ids(spec, ids)
        instrs = [(a.disasm, None if a.value is None else str(a.value)) for a in asm]
    except Exception as e:
        rec["verdict"] = "asm-raised"
        rec["why"] = repr(e)
        return rec
    v, why = realize.semantic_check(spec, instrs, ids)
    rec["semantic"] = v
    if v == "different":
        rec["verdict"] = "semantically-different"
        rec["why"] = why
    elif v == "harness-error":
        rec["verdict"] = "harness-error"
        rec["why"] = why
    return rec


# ------------------------------------------------------------------------------------------------ hand-built specs

KINDS = {"ADD": (2, True, True, False), "SUB": (2, False, True, False), "ISZERO": (1, False, True, False),
         "PUSH": (0, False, True, False), "MLOAD": (1, False, True, False), "MSTORE": (2, False, False, True),
         "SSTORE": (2, False, False, True)}
OPC = {"ADD": "01", "SUB": "03", "ISZERO": "15", "PUSH": "60", "MLOAD": "51", "MSTORE": "52", "SSTORE": "55"}


def handbuilt(n_inputs_max=2, n_instr_max=2, tgt_max=2, cap=None):
    """well-formed specifications: every produced value is used, dependencies acyclic and consistent with data flow"""
    out = []
    for n_in in range(0, n_inputs_max + 1):
        inputs = ["s(%d)" % i for i in range(n_in)]
        for n_ins in range(0, n_instr_max + 1):
            for kinds in itertools.product(sorted(KINDS), repeat=n_ins):
                if list(kinds) != sorted(kinds):
                    pass
                # operands: each instruction may use the inputs and the outputs of earlier instructions
                def build(k, instrs, avail):
                    if k == n_ins:
                        yield list(instrs)
                        return
                    kind = kinds[k]
                    ar, comm, has_out, store = KINDS[kind]
                    for ops in itertools.product(avail, repeat=ar):
                        if comm and ar == 2 and ops[0] > ops[1]:
                            continue
                        outv = "s(%d)" % (10 + k)
                        ins = {"id": "%s_%d" % (kind, k), "opcode": OPC[kind], "disasm": kind, "inpt_sk": list(ops),
                               "outpt_sk": [outv] if has_out else [], "gas": 3, "commutative": comm, "storage": store,
                               "size": 1, "push": kind == "PUSH"}
                        if kind == "PUSH":
                            ins["value"] = [7 + k]
                        yield from build(k + 1, instrs + [ins], avail + ([outv] if has_out else []))
                for instrs in build(0, [], list(inputs)):
                    values = inputs + [i["outpt_sk"][0] for i in instrs if i["outpt_sk"]]
                    mem = [i["id"] for i in instrs if i["disasm"] in ("MLOAD", "MSTORE")]
                    dep_choices = [[]]
                    # ordering constraints as the format uses them: each pair involves at least one store
                    if len(mem) == 2 and any(m.startswith("MSTORE") for m in mem):
                        dep_choices.append([[mem[0], mem[1]]])
                    for tl in range(0, tgt_max + 1):
                        for tgt in itertools.product(values, repeat=tl):
                            used = set(tgt)
                            for i in instrs:
                                used.update(i["inpt_sk"])
                            if any(i["outpt_sk"] and i["outpt_sk"][0] not in used for i in instrs):
                                continue
                            for deps in dep_choices:
                                spec = {"init_progr_len": 24, "max_progr_len": 24, "max_sk_sz": 12,
                                        "vars": list(values), "src_ws": list(inputs), "tgt_ws": list(tgt),
                                        "user_instrs": copy.deepcopy(instrs), "current_cost": 100,
                                        "storage_dependences": [], "memory_dependences": copy.deepcopy(deps),
                                        "dependencies": copy.deepcopy(deps), "is_revert": False, "rules_applied": False,
                                        "rules": [], "original_instrs": ""}
                                out.append(spec)
                                if cap and len(out) >= cap:
                                    return out
    return out


def job(j):
    kind = j[0]
    recs = []
    if kind == "hand":
        _, lo, hi, params = j
        fam = handbuilt(*params)[lo:hi]
        for spec in fam:
            r = run_greedy(spec)
            r["origin"] = "hand"
            if r["verdict"] not in ("ok", "greedy-error"):
                r["spec"] = spec
            recs.append(r)
        return {"recs": recs}
    if kind == "text":
        blocks = gasol.parse_plain(j[1])
        src = j[1]
    else:
        blocks = [b for b in gasol.blocks_of_document(j[1])[j[2]:j[3]] if b.instructions_to_optimize_plain() != []]
        src = None
    for b in blocks:
        try:
            sfs, subs = gasol.sfs_of(b)
        except Exception as e:
            recs.append({"verdict": "front-end-raised", "why": repr(e)[:200], "origin": src or b.block_name})
            continue
        for name, spec in sfs.items():
            r = run_greedy(spec)
            r["origin"] = src or spec.get("original_instrs", name)
            if r["verdict"] not in ("ok", "greedy-error"):
                r["spec"] = spec
            recs.append(r)
    return {"recs": recs}


def main():
    tier = report.tier()
    rep = report.Report("C04", "translation_validation")
    ops, pairs = F.rule_opcodes()
    both = sorted(set(pairs) | {(b, a) for a, b in pairs})
    texts = []
    texts += F.f_mem((2,), deltas=[0, 1, 32])
    texts += F.f_mem((3,), deltas=[0, 16], ops=("MSTORE", "MLOAD", "MSTORE8"))
    texts += F.f_mem((2,), deltas=[0, 32], mixed=True)
    texts += F.f_rule_singles(ops, contexts=("stack", "consumed"))
    texts += F.f_rule_chains(ops, depth=3)
    texts += F.f_rule_pairs(both, consts=[0, 1, F.MASK], contexts=("stack",))
    texts += F.f_exh(2 if tier == "quick" else 3)
    texts += F.f_mem((3,), deltas=[0], ops=("SSTORE", "SLOAD", "MSTORE", "MLOAD"), mixed=True)
    texts += F.deep_stack_blocks()
    texts += F.f_mem_consuming()
    texts += F.f_rule_existing()[:: (12 if tier == "quick" else 2)]
    texts += F.f_rule_siblings(["LT", "GT", "ISZERO", "EQ", "SUB", "AND"], consts=(0, 1))[::3]
    # a load after a store of its own space whose value is then stored in the other space
    for st, ld, other in (("SSTORE", "SLOAD", "MSTORE"), ("MSTORE", "MLOAD", "SSTORE"), ("SSTORE", "SLOAD", "MSTORE8")):
        for k1 in ("DUP2", "PUSH 5", "DUP3"):
            for k2 in ("DUP2", "PUSH 5", "PUSH 6", "DUP1"):
                for k3 in ("DUP3", "PUSH 40", "DUP1"):
                    texts.append("DUP3 %s %s %s %s %s %s" % (k1, st, k2, ld, k3, other))
    if tier == "thorough":
        texts += F.f_mem((3,), deltas=[0, 1, 32], ops=("MSTORE", "MLOAD", "MSTORE8", "KECCAK256"))
        texts += F.f_mem((4,), deltas=[0, 16], ops=("MSTORE", "MLOAD"))
    texts = list(dict.fromkeys(texts))
    hp = (2, 2, 2) if tier == "quick" else (2, 3, 2)
    nh = len(handbuilt(*hp, cap=(None if tier == "quick" else 150000)))
    docs = F.f_real_documents()
    tasks = []
    for k, split in enumerate(gasol.SPLITS):
        for rules in (True, False):
            o = gasol.optset(split, "gas", rules, True, "greedy")
            g = 1 if (split == "none" and rules) or tier == "thorough" else 3
            jobs = [("text", t) for i, t in enumerate(texts) if i % g == 0]
            nd = 3 if tier == "quick" else 10
            for d in [docs[(k * nd + i) % len(docs)] for i in range(nd)]:
                for lo in range(0, 80 if tier == "quick" else 200, 20):
                    jobs.append(("doc", d, lo, lo + 20))
            tasks.append((o, jobs, 500))
    hjobs = [("hand", lo, min(nh, lo + 2000), hp + ((None if tier == "quick" else 150000),)) for lo in range(0, nh, 2000)]
    tasks.append((gasol.optset(), hjobs, 1))
    results, stats = pool.run(tasks, "checks.c04:job", job_timeout=600)
    programs = success = 0
    verdicts = {}
    samples = []
    for o, j, r in results:
        if "recs" not in r:
            verdicts["harness"] = verdicts.get("harness", 0) + 1
            if "harness_exception" in r:
                rep.harness_error(str(r["harness_exception"])[-300:])
            continue
        for rec in r["recs"]:
            programs += 1
            v = rec["verdict"]
            verdicts[v] = verdicts.get(v, 0) + 1
            if v in ("ok",):
                success += 1
                if len(samples) < 8 and len(rec.get("ids", [])) >= 4:
                    samples.append({"origin": rec["origin"], "ids": rec["ids"], "semantic": rec.get("semantic")})
            if v in ("not-realizing", "semantically-different", "asm-raised"):
                key = "%s:%s" % (v, rec["origin"] if rec["origin"] != "hand" else "hand:" + spec_key(rec["spec"]))
                cls = classify(rec)
                if cls:
                    key = cls
                rep.violation(key, "greedy reports success with ids %s: %s" % (rec.get("ids"), rec["why"]),
                              {"options": o, "origin": rec["origin"], "spec": rec.get("spec"), "ids": rec.get("ids")})
            if v == "harness-error":
                rep.harness_error("semantic model did not replay for %s" % rec["origin"])
    rep.coverage = {
        "programs": programs, "disagreements_checked": success,
        "verdicts": verdicts, "handbuilt_specifications": nh, "templates": len(texts),
        "samples": samples or [{"note": "none"}], "solver": stats.as_dict(),
        "functions": ["greedy.block_generation.greedy_from_json", "solution_generation.ids2asm.asm_from_ids"],
        "explanation": "programs = specifications given to the real greedy algorithm; disagreements_checked = those on "
                       "which it reported success (error = 0), each checked on the reference stack machine and by the SMT "
                       "query E1(rebuilt assembly) vs E2(specification, induced schedule)",
        "bounds": "hand-built family: <= %d inputs, <= %d instructions over %s, target stack <= %d; front-end families of tier %s"
                  % (hp[0], hp[1], sorted(KINDS), hp[2], tier),
    }
    rep.assumptions = ["offsets/lengths < 2^32"]
    sys.exit(rep.finish())


def classify(rec):
    """mechanism-level identity for the one recorded greedy defect: a load that a store of the *same* space must precede
    is emitted before that store when its value feeds a store of the *other* space (memory vs storage orders are merged
    separately)"""
    import re
    m = re.match(r"ordering constraint ((?:S|M)STORE8?_\d+) before ((?:S|M)LOAD|KECCAK256)_\d+ is not respected", rec.get("why", ""))
    spec = rec.get("spec")
    if not m or not spec:
        return None
    store_id = m.group(1)
    load_id = re.search(r"before (\w+_\d+) is", rec["why"]).group(1)
    by_id = {i["id"]: i for i in spec["user_instrs"]}
    if store_id not in by_id or load_id not in by_id:
        return None
    space = "S" if store_id.startswith("S") else "M"
    out = by_id[load_id]["outpt_sk"][0] if by_id[load_id]["outpt_sk"] else None
    # does the load's value (transitively) feed a store of the other space?
    users, frontier = set(), {out}
    while frontier:
        v = frontier.pop()
        for i in spec["user_instrs"]:
            if v in i["inpt_sk"] and i["id"] not in users:
                users.add(i["id"])
                frontier.update(i["outpt_sk"])
    other = [u for u in users if by_id[u].get("storage") and not u.startswith(space)]
    if other:
        return "greedy:load-before-its-store-when-feeding-a-store-of-the-other-space"
    return None


def spec_key(spec):
    return "src=%s;tgt=%s;instrs=%s;deps=%s" % (spec["src_ws"], spec["tgt_ws"],
                                                [(i["id"], i["inpt_sk"]) for i in spec["user_instrs"]], spec["dependencies"])


if __name__ == "__main__":
    main()
