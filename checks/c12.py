"""C12 -- a block's result does not depend on what was processed before it.

Inductive-step pattern: instead of exploring histories, the pre-state is made symbolic.  An AST walk over the current
gasol_optimization.py / ir_block.py lists every module-level name assigned inside a function; CrossHair havocs all
scalar ones (ints, bools, strings) simultaneously with unconstrained symbolic values -- except those the fixed option set
determines -- and runs the real front-end on concrete blocks: the specification and sub-block list must equal those of
a fresh interpreter ("Confirmed over all paths"), a reachability twin must be refuted.  Container globals are covered by
native enumeration of real histories (every pair of predecessor blocks from a pool, in a fresh process each), which also
covers the optimized code and the statistics counters."""
import itertools
import os
import re
import subprocess
import sys
import time

from vlib import gasol, pool, report
from vlib import families as F

HERE = os.path.dirname(os.path.dirname(os.path.abspath(__file__)))
FLAGSETS = ["", "-storage", "-partition -size", "-no-simplification -length"]


def crosshair(fn, flags, timeout, which=0):
    env = dict(os.environ)
    env.update({"GASOL_REPO": gasol.REPO, "PYTHONPATH": HERE, "C12_FLAGS": flags, "C12_WHICH": str(which), "C12_DWHICH": str(which)})
    t0 = time.time()
    p = subprocess.run([os.path.join(HERE, ".venv", "bin", "crosshair"), "check", "--report_all", "--per_condition_timeout",
                        str(timeout), "harness.ch_c12." + fn], cwd=HERE, env=env, capture_output=True, text=True, timeout=timeout + 180)
    out = (p.stdout + p.stderr).strip()
    if "Confirmed over all paths" in out:
        v = "confirmed"
    elif "error:" in out and "when calling" in out:
        v = "counterexample"
    else:
        v = "inconclusive"
    call = None
    replayed = None
    if v == "counterexample":
        m = re.search(r"when calling (independent\w*\(.*?\))\s*(?:\(which returns|$)", out, re.S | re.M)
        call = m.group(1) if m else None
        if call is not None and len(call) < 4000:
            # replay natively (no tracing) in a fresh interpreter before anything is reported
            code = "import harness.ch_c12 as H\ntry:\n    r = H.%s\nexcept Exception as e:\n    r = 'raises ' + type(e).__name__\nprint('REPLAY', r)" % call
            q = subprocess.run([os.path.join(HERE, ".venv", "bin", "python"), "-W", "ignore", "-c", code], cwd=HERE, env=env,
                               capture_output=True, text=True, timeout=600)
            mm = re.search(r"REPLAY (.*)", q.stdout)
            replayed = mm.group(1).strip() if mm else "no result: " + (q.stderr or "")[-200:]
    return {"function": fn, "flags": flags, "which": which, "verdict": v, "output": out[-700:], "call": call, "replayed": replayed,
            "seconds": round(time.time() - t0, 1)}


def hist_job(j):
    """run the history, then the subject blocks one after the other, in this (fresh) process.  Every subject's result is
    a result under a genuine history (the given one plus the subjects before it)"""
    history, subjects = j
    import gasol_asm
    for h in history:
        for b in gasol.parse_plain(h, "hist"):
            gasol.optimize_one(b)
    out = {"results": {}}
    for text in subjects:
        g0, s0, n0 = gasol_asm.previous_gas, gasol_asm.previous_size, gasol_asm.prev_n_instrs
        b = gasol.parse_plain(text, "subject")[0]
        sfs, subs = gasol.sfs_of(b)
        res = gasol.optimize_one(gasol.parse_plain(text, "subject")[0])
        stats = (gasol_asm.previous_gas - g0, gasol_asm.previous_size - s0, gasol_asm.prev_n_instrs - n0)
        out["results"][text] = {"sfs": sfs, "subs": subs, "out": gasol.plain_of(gasol.instrs_of(res["out_block"])), "stats": stats}
    return out


def main():
    tier = report.tier()
    rep = report.Report("C12", "model_checking")
    import concurrent.futures as cf
    conds = [("independent", fl, 600) for fl in (FLAGSETS[:3] if tier == "quick" else FLAGSETS)] + [("independent_reach", "", 120)]
    # one string-list global at a time (caches, rule lists, orders): their number comes from the current source
    env = dict(os.environ)
    env.update({"GASOL_REPO": gasol.REPO, "PYTHONPATH": HERE})
    counts = subprocess.run([os.path.join(HERE, ".venv", "bin", "python"), "-W", "ignore", "-c",
                             "import harness.ch_c12 as H; print(H.NL, *H.ND)"], cwd=HERE, env=env, capture_output=True, text=True).stdout.strip().splitlines()[-1].split()
    nl, nd = int(counts[0]), [int(x) for x in counts[1:4]]
    for w in range(nl):
        for fl in ([""] if tier == "quick" else ["", "-storage"]):
            conds.append(("independent_of_lists", fl, 600, w))
    # one dictionary global at a time (typed after the shapes observed in a native pre-run: str->str, str->int, int->str)
    for fn, n in zip(("independent_of_dict_ss", "independent_of_dict_si", "independent_of_dict_is"), nd):
        for w in range(n):
            for fl in ([""] if tier == "quick" else ["", "-storage"]):
                conds.append((fn, fl, 600, w))
    with cf.ThreadPoolExecutor(max_workers=16) as ex:
        futs = [ex.submit(crosshair, *c) for c in conds]
        # native histories meanwhile
        poolblocks = ["PUSH 0 DUP2 ADD PUSH 3 MUL", "DUP3 DUP3 MSTORE DUP2 MLOAD DUP1 DUP3 ADD", "DUP2 DUP2 SSTORE DUP1 SLOAD PUSH 1 ADD",
                      "PUSH 20 DUP2 KECCAK256 DUP2 MLOAD LT ISZERO", "CALLER PUSH ffffffffffffffffffffffffffffffffffffffff AND DUP2 EQ",
                      "DUP1 DUP3 LOG1 PUSH 5 DUP2 MSTORE", "PUSH 1 DUP2 SHL DUP3 MUL", "DUP2 DUP2 SUB ISZERO ISZERO", "NOT NOT",
                      "DUP1 PUSH 1 OR DUP1 PUSH 1 OR ISZERO", "PUSH 5 PUSH 3 PUSH 2 ADDMOD DUP2 MUL", "DUP2 DUP2 MSTORE8 DUP2 DUP2 MSTORE8",
                      "GAS DUP2 ADD GAS MUL", "TIMESTAMP DUP1 ADD", "PUSH [tag] 5 DUP2 ADD", "DUP1 ISZERO ISZERO ISZERO",
                      "PUSH 3 PUSH 4 ADD SWAP2 POP", "PUSH 3 PUSH 4 ADD SWAP1 POP", "PUSH 3 PUSH 4 ADD", "PUSH 4 PUSH 3 MUL DUP2 ADD"]
        poolblocks = poolblocks[-4:] + poolblocks[:-4]
        if tier == "thorough":
            poolblocks += F.consuming_singles(["ADD", "SHL", "LT", "AND"])[::5] + F.f_mem((2,), deltas=[0, 32])[::40]
        subjects = poolblocks[:10] if tier == "quick" else poolblocks[:24]
        hists = [()] + [(h,) for h in poolblocks] + ([(a, b) for a in poolblocks[8:14] for b in poolblocks[:4]] if tier == "quick"
                                                     else [(a, b) for a in poolblocks[:16] for b in poolblocks[:16] if a != b])
        tasks = []
        for o in (gasol.optset("none", "gas", True, True, "greedy"), gasol.optset("storage", "size", True, False, "greedy"),
                  gasol.optset("partition", "length", False, True, "greedy")):
            jobs = [([], [s]) for s in subjects]                      # fresh-process baselines
            for k, h in enumerate(hists[1:]):
                rot = subjects[k % len(subjects):] + subjects[:k % len(subjects)]
                jobs.append((list(h), rot))
            tasks.append((o, jobs, 1))
        results, _ = pool.run(tasks, "checks.c12:hist_job", job_timeout=300)
        chres = [f.result() for f in futs]
    confirmed = 0
    for r in chres:
        if r["function"].endswith("_reach"):
            if r["verdict"] != "counterexample":
                rep.harness_error("reachability twin not refuted: %s" % r["output"][-300:])
            continue
        if r["verdict"] == "confirmed":
            confirmed += 1
        elif r["verdict"] == "counterexample":
            call = r.get("call")
            if call is None or r.get("replayed") in (None, "True") or str(r.get("replayed")).startswith("no result"):
                rep.harness_error("CrossHair counterexample for flags %r does not replay natively (%s): %s" % (r["flags"], r.get("replayed"), (call or r["output"])[:300]))
                continue
            rep.violation("havoc:%s:%s" % (r["flags"], re.sub(r"-?\d{3,}", "N", call)[:200]),
                          "a value left in a module global changes the specification: %s replays as %s [flags %r]" % (call[:600], r["replayed"], r["flags"]), r)
        else:
            rep.harness_error("CrossHair inconclusive for flags %r: %s" % (r["flags"], r["output"][-300:]))
    base = {}
    runs = diffs = 0
    for o, j, r in results:
        if "results" not in r:
            rep.harness_error("history job failed: %s" % str(r)[:300])
            continue
        if not j[0] and len(j[1]) == 1:
            base[(gasol.optset_name(o), j[1][0])] = r["results"][j[1][0]]
    for o, j, r in results:
        if "results" not in r or (not j[0] and len(j[1]) == 1):
            continue
        seen = list(j[0])
        for text in j[1]:
            runs += 1
            b = base.get((gasol.optset_name(o), text))
            got = r["results"].get(text)
            if b is not None and got is not None:
                for what in ("sfs", "subs", "out", "stats"):
                    if got[what] != b[what]:
                        diffs += 1
                        rep.violation("history:%s:%s:%s" % (what, " ; ".join(seen), text),
                                      "after history %s the %s of block %s differs from a fresh process [options %s]" % (seen, what, text, gasol.optset_name(o)),
                                      {"options": o, "history": seen, "block": text})
                        break
            seen.append(text)
    rep.coverage = {
        "states": max(1, confirmed), "transitions": max(1, runs), "traces_validated_against_impl": runs,
        "samples": [{"crosshair": [(r["function"], r["flags"], r["verdict"], r["seconds"]) for r in chres]},
                    {"history": list(hists[20]) if len(hists) > 20 else [], "subject": subjects[0]}],
        "explanation": "states = CrossHair conditions confirmed over all paths (all scalar assigned globals havocked symbolically at once; "
                       "each string-list global set to an arbitrary list of at most one arbitrary string; each dictionary global of an observed shape str->str, str->int or int->str set to an arbitrary dictionary with at most one entry; 11 subject blocks); transitions = native history runs (fresh process each: 0, 1 or 2 predecessor blocks "
                       "then the subject block; specification, sub-blocks, emitted code and statistics deltas compared with the empty history)",
        "functions": ["ir_block.evm2rbr_compiler", "gasol_optimization.get_sfs_dict", "gasol_asm.optimize_asm_contract", "gasol_asm.update_*_count"],
        "stubs": ["under CrossHair only: ir_block.write_rbr, gasol_optimization.open/os, ir_block.os (debug dumps; the audit wall forbids file writes)"],
    }
    rep.assumptions = ["option-determined globals (split_sto, size_flag, push/pop/revert flags, split_block, push0_enabled) keep the "
                       "value the fixed option set implies", "dictionary globals whose values are tuples or nested dictionaries (u_dict, push_rebuilt, sfs_contracts, blocks_json_dict) are covered by real histories only"]
    sys.exit(rep.finish())


if __name__ == "__main__":
    main()
