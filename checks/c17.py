"""C17 -- instruction-set restrictions chosen by the user are honoured (PUSH0 switch, contract selection).

1. generate_push_instruction is executed from its source AST with a *symbolic PUSH0 flag and a symbolic constant*:
   z3 decides on every path that the instruction is called PUSH0 iff (flag and constant = 0) and that its gas/size fields
   are those of the opcode it names.
2. Pricing/emission chain of AsmBytecode for both spellings of a zero push under both flag values (finite domain,
   enumerated) against the independent table.
3. Pipeline: with PUSH0 disabled no emitted item is named PUSH0 and the plain rendering contains no PUSH0 unless the
   input had one; with both settings the tool's accounting of input and output agrees with the independent model.
4. Contract selection on a three-contract document: every other contract is absent or unchanged; a missing name raises."""
import ast
import copy
import json
import os
import shutil
import sys
import tempfile

import z3

from vlib import families as F
from vlib import gasol, pool, report, cost
from vlib import pysym as P
from vlib.smt import Stats, solve

STATS = Stats()
REPO = gasol.REPO


def sym_job(j):
    gasol.import_repo()
    import sfs_generator.opcodes as opcodes
    out = {"obligations": 0, "discharged": 0, "bad": [], "inconclusive": []}
    trees = []
    for rel in ("sfs_generator/utils.py", "sfs_generator/gasol_optimization.py"):
        with open(os.path.join(REPO, rel)) as f:
            trees += ast.parse(f.read()).body
    tree = ast.Module(body=trees, type_ignores=[])
    flag = z3.Bool("push0_enabled")
    v = z3.BitVec("v", 256)
    sv = P.SymInt(z3.ZeroExt(P.WIDTH - 256, v))
    consts = P.NativeNamespace(push0_enabled=P.SymBool(flag))
    ex = P.Executor(tree, {"constants": consts, "opcodes": opcodes}, loop_bound=40)
    try:
        paths = ex.run("generate_push_instruction", [3, sv, "s(9)"])
    except P.Unmodelled as e:
        out["inconclusive"].append("unmodelled: %s" % e)
        return out
    nbytes = P.bvc(1)
    for k in range(2, 33):
        nbytes = z3.If(z3.UGE(v, z3.BitVecVal(1 << (8 * (k - 1)), 256)), P.bvc(k), nbytes)
    is0 = z3.And(flag, v == z3.BitVecVal(0, 256))
    for pc, outcome, _ in paths:
        out["obligations"] += 1
        if outcome[0] == "raise":
            verdict, model = solve(pc, 10000, STATS, "c17:raise")
            if verdict == "sat":
                out["bad"].append({"key": "generate_push_instruction:raises:" + outcome[1], "what": "raises " + outcome[1]})
            else:
                out["discharged"] += 1
            continue
        obj = outcome[1]
        name_push0 = obj["disasm"] == "PUSH0"
        props = [
            ("name", z3.BoolVal(name_push0) == is0),
            ("id", z3.BoolVal(str(obj["id"]).startswith("PUSH0_")) == is0),
            ("gas", P.lift(obj["gas"]) == z3.If(is0, P.bvc(2), P.bvc(3))),
            ("size", P.lift(obj["size"]) == z3.If(is0, P.bvc(1), P.bvc(1) + nbytes)),
            ("value", P.lift(obj["value"][0]) == sv.t),
        ]
        for label, f in props:
            out["obligations"] += 1
            verdict, model = solve(pc + [z3.Not(f)], 20000, STATS, "c17:push")
            if verdict == "unsat":
                out["discharged"] += 1
            elif verdict == "sat":
                out["bad"].append({"key": "generate_push_instruction:" + label,
                                   "what": "field %s of the generated push is wrong for push0_enabled=%s, value=%s (disasm %s, %s=%s)"
                                           % (label, model.eval(flag, model_completion=True), model.eval(v, model_completion=True),
                                              obj["disasm"], label, obj.get(label, obj.get("id")))})
            else:
                out["inconclusive"].append("solver " + verdict)
        out["discharged"] += 1
    out["stats"] = STATS.as_dict()
    return out


def pricing_job(j):
    """finite domain: flag x {input spelling PUSH0/None, emitted spelling PUSH/'0', PUSH/'1', PUSH/'ff..'}"""
    gasol.import_repo()
    import global_params.constants as constants
    from sfs_generator.asm_bytecode import AsmBytecode
    from sfs_generator.parser_asm import build_asm_bytecode
    from solution_generation.ids2asm import id_to_asm_bytecode
    out = {"cases": 0, "bad": []}
    for flag in (True, False):
        constants._set_push0(flag)
        parsed = build_asm_bytecode({"begin": 0, "end": 0, "name": "PUSH", "source": 0, "value": "0"}, {})
        emitted0 = id_to_asm_bytecode({"P": {"id": "P", "disasm": "PUSH0", "value": [0]}}, "P")
        emitted1 = id_to_asm_bytecode({"P": {"id": "P", "disasm": "PUSH", "value": [0]}}, "P")
        for label, item in (("parsed input PUSH 0", parsed), ("emitted from PUSH0 id", emitted0), ("emitted from PUSH id", emitted1)):
            out["cases"] += 1
            name = "PUSH0" if item.disasm == "PUSH0" else "PUSH"
            val = item.value if item.value is not None else "0"
            want_b = cost.bytes_of(name, val, flag)
            want_g = cost.gas_min(name, val, flag)
            if item.bytes_required != want_b or item.gas_spent != want_g:
                out["bad"].append({"key": "pricing:%s:push0=%s" % (label, flag),
                                   "what": "%s priced %d gas / %d bytes, expected %d / %d (push0 %s)"
                                           % (label, item.gas_spent, item.bytes_required, want_g, want_b, flag)})
            js = item.to_json()
            if not flag and (js["name"] == "PUSH0" or "PUSH0" in item.to_plain().split()):
                out["bad"].append({"key": "emission:%s:push0=False" % label, "what": "%s rendered as PUSH0 with PUSH0 disabled" % label})
            if js["name"] == "PUSH0" and label.startswith("emitted"):
                out["bad"].append({"key": "emission-name:%s" % label, "what": "emitted item is named PUSH0 in the JSON"})
        for v in ("1", "ff", "f" * 64):
            out["cases"] += 1
            item = AsmBytecode(-1, -1, -1, "PUSH", v)
            if item.bytes_required != cost.bytes_of("PUSH", v, flag) or item.gas_spent != 3:
                out["bad"].append({"key": "pricing:PUSH %s" % v, "what": "PUSH %s mispriced" % v})
        # a pseudo-push is never a zero push, whatever its operand is spelled like (the plain-text reader and ids2asm
        # normalise operands, so "0" does occur): name, rendering and price stay those of the pseudo-push
        for name in ("PUSH [tag]", "PUSH data", "PUSH [$]", "PUSH #[$]", "PUSHIMMUTABLE", "PUSHLIB", "PUSHSIZE", "PUSHDEPLOYADDRESS"):
            for v in ("0", "00", "1", "0" * 64, None):
                if (v is None) != (name in ("PUSHSIZE", "PUSHDEPLOYADDRESS")):
                    continue
                out["cases"] += 1
                item = AsmBytecode(-1, -1, -1, name, v)
                label = "%s %s" % (name, v)
                try:
                    got = (item.bytes_required, item.gas_spent, item.to_plain().split()[0] == name.split()[0] and "PUSH0" not in item.to_plain().split(),
                           item.to_json()["name"])
                except Exception as e:
                    out["bad"].append({"key": "pricing:%s:raises" % label, "what": "%s: pricing/rendering raises %r" % (label, e)})
                    continue
                want = (cost.bytes_of(name, v, flag), 3, True, name)
                if got != want:
                    out["bad"].append({"key": "pricing:%s:push0=%s" % (label, flag),
                                       "what": "%s: (bytes, gas, rendered as itself, JSON name) = %s, expected %s (push0 %s)" % (label, got, want, flag)})
    return out


def pipe_job(j):
    text = j[0]
    o = gasol._OPTS
    recs = []
    for b in gasol.parse_plain(text):
        res = gasol.optimize_one(b)
        if res["error"] or res["compare_error"]:
            continue
        ob = res["out_block"]
        rec = {"text": text, "out": ob.to_plain(), "bad": None}
        names_in = [i.to_json()["name"] for i in b.instructions]
        names_out = [i.to_json()["name"] for i in ob.instructions]
        plain_in, plain_out = b.to_plain().split(), ob.to_plain().split()
        if not o["push0"]:
            if "PUSH0" in names_out and "PUSH0" not in names_in:
                rec["bad"] = "emitted item named PUSH0 with PUSH0 disabled"
            if "PUSH0" in plain_out and "PUSH0" not in plain_in:
                rec["bad"] = "plain rendering contains PUSH0 with PUSH0 disabled"
        A, B = gasol.instrs_of(b), gasol.instrs_of(ob)
        try:
            for blk, ins in ((b, A), (ob, B)):
                g, by, ln, dyn = cost.measure(ins, o["push0"])
                if blk.bytes_required != by or (not dyn and blk.gas_spent != g):
                    rec["bad"] = "accounting of %s: tool %d gas / %d bytes, independent %d / %d (push0 %s)" % (
                        blk.to_plain(), blk.gas_spent, blk.bytes_required, g, by, o["push0"])
        except ValueError:
            pass
        rec["zero"] = any(cost.is_zero_push(n, v) for n, v in B)
        recs.append(rec)
    return {"recs": recs}


def contract_job(j):
    """three contracts (two with code sharing a short name prefix, one without asm): every selection"""
    import gasol_asm
    p = gasol.params()
    workdir = tempfile.mkdtemp(prefix="verif_c17_")
    out = {"cases": 0, "bad": []}
    try:
        def code(seq):
            items = [{"begin": 1, "end": 2, "name": "tag", "source": 0, "value": "1"}, {"begin": 1, "end": 2, "name": "JUMPDEST", "source": 0}]
            for t in seq:
                parts = t.split(" ")
                it = {"begin": 3, "end": 4, "name": parts[0], "source": 0}
                if len(parts) > 1:
                    it["value"] = parts[1]
                items.append(it)
            items.append({"begin": 5, "end": 6, "name": "STOP", "source": 0})
            return items
        # names that are suffixes / prefixes of one another, a contract without asm; every contract has its own code and marker
        doc = {"version": "0.8.19+commit", "contracts": {
            "a.sol:Token": {"asm": {".code": code(["PUSH 0", "DUP2", "ADD", "PUSH 1", "MUL", "PUSH a1", "POP"]),
                                     ".data": {"0": {".auxdata": "aa", ".code": code(["PUSH 0", "DUP2", "ADD", "PUSH a2", "POP"])}}}},
            "b.sol:MyToken": {"asm": {".code": code(["DUP1", "PUSH 0", "ADD", "POP", "PUSH b1", "POP"]), ".data": {"0": {".auxdata": "bb", ".code": code(["PUSH 1", "PUSH 0", "ADD", "PUSH b2", "POP"])}}}},
            "c.sol:TokenSale": {"asm": {".code": code(["PUSH 0", "PUSH 0", "ADD", "PUSH c1", "POP"]), ".data": {}}},
            "d.sol:Iface": {"asm": None},
        }}
        short = {n.split(":")[-1]: n for n in doc["contracts"]}
        path = os.path.join(workdir, "four.json_solc")
        with open(path, "w") as f:
            json.dump(doc, f)
        p.input_file = path
        p.input_format = "asm"
        p.seqs_file = os.path.join(workdir, "s.csv")
        p.blocks_file = os.path.join(workdir, "b.csv")
        p.log_file = os.path.join(workdir, "l.log")
        p.generate_log = False
        res_all = None
        for sel in (None, "Token", "MyToken", "TokenSale", "Iface", "Missing", "oken", "Sale", "Tok"):
            out["cases"] += 1
            p.contract = sel
            p.optimized_file = os.path.join(workdir, "out_%s.json" % sel)
            must_fail = sel is not None and (sel not in short or doc["contracts"][short[sel]]["asm"] is None)
            try:
                with gasol.Silence():
                    gasol_asm.optimize_asm_in_asm_format(p)
            except ValueError as e:
                if must_fail:
                    continue
                out["bad"].append({"key": "contract:%s:raises" % sel, "what": "selection %s raises %s" % (sel, e)})
                continue
            except Exception as e:
                out["bad"].append({"key": "contract:%s:raises" % sel, "what": "selection %s raises %r" % (sel, e)})
                continue
            if must_fail:
                out["bad"].append({"key": "contract:%s:accepted" % sel, "what": "the selection %r names no contract with code, yet the run succeeds and writes an output" % sel})
                continue
            with open(p.optimized_file) as f:
                res = json.load(f)
            if sel is None:
                res_all = res
                for cname in doc["contracts"]:
                    if cname not in res.get("contracts", {}):
                        out["bad"].append({"key": "contract:all:lost:" + cname, "what": "contract %s missing from the output" % cname})
                if res["contracts"].get("d.sol:Iface", {}).get("asm", "x") is not None and "asm" in res["contracts"].get("d.sol:Iface", {}):
                    out["bad"].append({"key": "contract:all:iface", "what": "contract without asm changed"})
            else:
                # the output is the selected contract's asm alone: it must be exactly what that contract becomes when the
                # whole document is optimized, and contain nobody else's marker constants
                want = (res_all or {}).get("contracts", {}).get(short[sel], {}).get("asm")
                if "contracts" in res:
                    for cname, c in res["contracts"].items():
                        if cname != short[sel] and c != doc["contracts"][cname]:
                            out["bad"].append({"key": "contract:%s:changed:%s" % (sel, cname), "what": "unselected contract %s changed" % cname})
                    got = res["contracts"].get(short[sel], {}).get("asm")
                else:
                    got = res
                if want is not None and got != want:
                    blob = json.dumps(got)
                    foreign = [m for m in ("a1", "a2", "b1", "b2", "c1") if '"%s"' % m in blob.lower() and m[0] != short[sel][0]]
                    out["bad"].append({"key": "contract:%s:wrong-code" % sel,
                                       "what": "with only %s selected the emitted code is not that contract's optimized code%s" % (
                                           sel, " (it carries the constants %s of another contract)" % foreign if foreign else "")})
    finally:
        shutil.rmtree(workdir, ignore_errors=True)
    return out


def job(j):
    return {"sym": sym_job, "pricing": pricing_job, "pipe": pipe_job, "contract": contract_job}[j[0]](j[1:])


def main():
    tier = report.tier()
    rep = report.Report("C17", "other")
    ops, pairs = F.rule_opcodes()
    texts = [t for t in F.f_rule_singles(ops, contexts=("stack", "consumed")) if " 0 " in (" " + t + " ") or "PUSH 1 " in t or "DUP" in t]
    texts += F.consuming_singles(ops)
    texts += [t for t in F.f_exh(2 if tier == "quick" else 3) if "PUSH" in t]
    texts = list(dict.fromkeys(texts))
    tasks = [(gasol.optset(), [("sym",), ("pricing",)], 1)]
    for push0 in (True, False):
        for crit in ("gas", "size"):
            o = gasol.optset("none", crit, True, push0, "greedy")
            tasks.append((o, [("pipe", t) for t in texts], 800))
        tasks.append((gasol.optset("none", "gas", True, push0, "z3"), [("pipe", t) for t in texts[::25]], 100))
        tasks.append((gasol.optset("none", "gas", True, push0, "greedy"), [("contract",)], 1))
    results, stats = pool.run(tasks, "checks.c17:job", job_timeout=600)
    obligations = discharged = programs = zero_blocks = cases = 0
    for o, j, r in results:
        if j[0] == "sym":
            if "obligations" not in r:
                rep.harness_error("symbolic job failed: %s" % str(r)[:300])
                continue
            obligations += r["obligations"]
            discharged += r["discharged"]
            for b in r["bad"]:
                rep.violation(b["key"], b["what"], b)
            for inc in r["inconclusive"]:
                rep.harness_error("generate_push_instruction: " + inc)
            if r.get("stats"):
                stats.merge(r["stats"])
        elif j[0] in ("pricing", "contract"):
            if "cases" not in r:
                rep.harness_error("%s job failed: %s" % (j[0], str(r)[:300]))
                continue
            cases += r["cases"]
            for b in r["bad"]:
                rep.violation(b["key"], b["what"], {"options": o, **b})
        else:
            if "recs" not in r:
                continue
            for rec in r["recs"]:
                programs += 1
                zero_blocks += 1 if rec.get("zero") else 0
                if rec["bad"]:
                    rep.violation("pipeline:%s:push0=%s" % (rec["text"], o["push0"]), rec["bad"] + " [options %s]" % gasol.optset_name(o),
                                  {"options": o, "input": rec["text"], "core": rec["text"]})
    rep.coverage = {
        "explanation": "symbolic execution of generate_push_instruction with symbolic PUSH0 flag and constant (%d obligations, %d "
                       "discharged); %d enumerated pricing/emission and contract-selection cases; %d blocks through the pipeline "
                       "under both flag settings (%d of them emit a zero push)" % (obligations, discharged, cases, programs, zero_blocks),
        "obligations": obligations, "discharged": discharged, "evaluations": programs + cases, "distinct_nontrivial": zero_blocks,
        "rule": "non-trivial = emitted block contains a zero push", "samples": [{"template": t} for t in texts[:5]],
        "solver": stats.as_dict(),
        "functions": ["gasol_optimization.generate_push_instruction (AST)", "asm_bytecode.AsmBytecode.bytes_required/gas_spent/to_json/to_plain",
                      "parser_asm.build_asm_bytecode", "ids2asm.id_to_asm_bytecode", "gasol_asm.optimize_asm_in_asm_format (contract filter)"],
    }
    rep.assumptions = ["the contract-selection clause has no semantic variable: its 5 selections are simply enumerated"]
    sys.exit(rep.finish())


if __name__ == "__main__":
    main()
