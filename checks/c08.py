"""C08 -- optimization never makes a block costlier in the chosen criterion.

1. Decision logic, fully symbolic: improves_criterion, block_has_been_optimized, compare_best_block are executed from
   their source AST (vlib.pysym) with symbolic cost vectors; z3 decides `accepted => not costlier and lexicographically
   better` and `the candidate chosen by compare_best_block saves at least as much as the other one`.
2. Size function, symbolic constant: utils.get_ins_size("PUSH", v) / get_num_bytes_int for all v < 2^256 against the
   independent byte formula; update_*_count add exactly the per-block figures.
3. Pipeline: for blocks of the families under every criterion and back end, the emitted block is measured with the
   independent cost model of vlib.cost: not costlier, and changed only if it improves lexicographically; the tool's
   own per-instruction accounting is compared with the independent table on both blocks."""
import ast
import os
import sys

import z3

from vlib import families as F
from vlib import gasol, pool, report, cost
from vlib import pysym as P
from vlib.smt import Stats, solve

STATS = Stats()
REPO = gasol.REPO


def load(rel):
    with open(os.path.join(REPO, rel)) as f:
        return ast.parse(f.read())


def sym(name, lo=-(1 << 40), hi=1 << 40):
    v = z3.BitVec(name, P.WIDTH)
    return P.SymInt(v), [v >= P.bvc(lo), v <= P.bvc(hi)]


def spec_improves(s0, others):
    return z3.Or(s0 > P.bvc(0), z3.And(s0 == P.bvc(0), z3.And(*[o >= P.bvc(0) for o in others]),
                                       z3.Or(*[o > P.bvc(0) for o in others])))


def check_paths(paths, assumptions, expect, what, out, extra_side=()):
    """expect(outcome_value) -> z3 formula that must hold on that path"""
    for pc, outcome, genv in paths:
        out["obligations"] += 1
        if outcome[0] == "raise":
            verdict, model = solve(assumptions + pc, 10000, STATS, "c08:raise")
            if verdict == "sat":
                out["bad"].append({"key": what + ":raises:" + outcome[1], "what": "%s raises %s" % (what, outcome[1]),
                                   "model": str(model)[:300]})
            elif verdict == "unsat":
                out["discharged"] += 1
            continue
        f = expect(outcome[1], genv)
        verdict, model = solve(assumptions + pc + list(extra_side) + [z3.Not(f)], 20000, STATS, "c08:logic")
        if verdict == "unsat":
            out["discharged"] += 1
        elif verdict == "sat":
            out["bad"].append({"key": what, "what": "%s violates its contract" % what,
                               "model": {str(d): str(model[d]) for d in model.decls()}})
        else:
            out["inconclusive"].append(what + ": solver " + verdict)


def logic_job(j):
    which = j[0]
    gasol.import_repo()
    out = {"obligations": 0, "discharged": 0, "bad": [], "inconclusive": [], "job": j}
    tree = load("gasol_asm.py")
    try:
        if which == "improves":
            n_other = j[1]
            s0, a0 = sym("s0")
            others, ass = [], list(a0)
            for k in range(n_other):
                o, a = sym("o%d" % k)
                others.append(o)
                ass += a
            ex = P.Executor(tree, {})
            paths = ex.run("improves_criterion", [s0] + others)

            def expect(v, genv):
                sp = spec_improves(s0.t, [o.t for o in others]) if others else (s0.t > P.bvc(0))
                if isinstance(v, P.SymBool):
                    return v.t == sp
                return z3.BoolVal(bool(v)) == sp
            check_paths(paths, ass, expect, "improves_criterion/%d" % n_other, out)
        elif which == "block_has_been_optimized":
            crit = j[1]
            vals, ass = {}, []
            for nm in ("ob", "og", "ol", "nb", "ng", "nl"):
                vals[nm], a = sym(nm, 0, 1 << 40)
                ass += a
            orig = P.NativeNamespace(bytes_required=vals["ob"], gas_spent=vals["og"], length=vals["ol"])
            new = P.NativeNamespace(bytes_required=vals["nb"], gas_spent=vals["ng"], length=vals["nl"])
            ex = P.Executor(tree, {})
            paths = ex.run("block_has_been_optimized", [orig, new, crit])
            sb, sg, sl = vals["ob"].t - vals["nb"].t, vals["og"].t - vals["ng"].t, vals["ol"].t - vals["nl"].t
            spec = {"size": spec_improves(sb, [sg]), "gas": spec_improves(sg, [sb]),
                    "length": spec_improves(sl, [sg, sb])}[crit]

            def expect(v, genv):
                acc = v.t if isinstance(v, P.SymBool) else z3.BoolVal(bool(v))
                return acc == spec
            check_paths(paths, ass, expect, "block_has_been_optimized/" + crit, out)
        elif which == "compare_best_block":
            crit, n = j[1], j[2]

            def seq(prefix):
                items, ass_ = [], []
                for k in range(n):
                    b, a1 = sym("%sb%d" % (prefix, k), 0, 40)
                    g, a2 = sym("%sg%d" % (prefix, k), 0, 100000)
                    items.append(P.NativeNamespace(bytes_required=b, gas_spent=g))
                    ass_ += a1 + a2
                return items, ass_
            o, a1 = seq("o")
            s, a2 = seq("s")
            g, a3 = seq("g")
            ass = a1 + a2 + a3
            ex = P.Executor(tree, {})
            paths = ex.run("compare_best_block", [o, s, g, crit])

            def total(items):
                attr = "bytes_required" if crit == "size" else "gas_spent"
                if crit == "length":
                    return P.bvc(len(items))
                t = P.bvc(0)
                for it in items:
                    t = t + getattr(it, attr).t
                return t
            saved_s = total(o) - total(s)
            saved_g = total(o) - total(g)

            def expect(v, genv):
                chosen, tag = v
                # the executor re-creates argument lists for every path; the cost objects inside keep their identity
                same = lambda x, y: len(x) == len(y) and all(p is q for p, q in zip(x, y))
                if same(chosen, s):
                    # superopt kept: greedy must not save strictly more, unless both save nothing
                    return z3.Or(saved_s >= saved_g, z3.And(saved_s <= P.bvc(0), saved_g <= P.bvc(0)))
                if same(chosen, g):
                    return z3.And(saved_g > saved_s, saved_g > P.bvc(0))
                return z3.BoolVal(False)
            check_paths(paths, ass, expect, "compare_best_block/%s/%d" % (crit, n), out)
        elif which == "get_ins_size":
            utree = load("sfs_generator/utils.py")
            v = z3.BitVec("v", 256)
            sv = P.SymInt(z3.ZeroExt(P.WIDTH - 256, v))
            ex = P.Executor(utree, {}, loop_bound=40)
            paths = ex.run("get_ins_size", ["PUSH", sv])
            # independent: 1 + max(1, ceil(bitlen/8)) as an ITE chain over the 32 byte lengths
            ref = P.bvc(2)
            for k in range(2, 33):
                ref = z3.If(z3.UGE(v, z3.BitVecVal(1 << (8 * (k - 1)), 256)), P.bvc(1 + k), ref)

            def expect(val, genv):
                return P.lift(val) == ref
            check_paths(paths, [], expect, "get_ins_size(PUSH)", out)
        elif which == "update_counts":
            fn, attr, gold, gnew = j[1], j[2], j[3], j[4]
            a, a1 = sym("a", 0, 1 << 40)
            b, a2 = sym("b", 0, 1 << 40)
            p0, a3 = sym("p0", 0, 1 << 40)
            n0, a4 = sym("n0", 0, 1 << 40)
            ob = P.NativeNamespace(**{attr: a})
            nb = P.NativeNamespace(**{attr: b})
            ex = P.Executor(tree, {})
            paths = ex.run(fn, [ob, nb], {gold: p0, gnew: n0})

            def expect(val, genv):
                return z3.And(P.lift(genv[gold]) == p0.t + a.t, P.lift(genv[gnew]) == n0.t + b.t)
            check_paths(paths, a1 + a2 + a3 + a4, expect, fn, out)
    except P.Unmodelled as e:
        out["inconclusive"].append("%r: unmodelled: %s" % (j, e))
    out["stats"] = STATS.as_dict()
    STATS.reset()
    return out


# ------------------------------------------------------------------------------------------------ pipeline

def pipe_job(j):
    text = j[0]
    p = gasol.params()
    o = gasol._OPTS
    recs = []
    for b in gasol.parse_plain(text):
        res = gasol.optimize_one(b)
        if res["error"] or res["compare_error"]:
            recs.append({"verdict": "pipeline-raised", "text": text})
            continue
        A = gasol.instrs_of(b)
        out_block = res["out_block"]
        B = gasol.instrs_of(out_block)
        push0 = o["push0"]
        try:
            ga, ba, la, da = cost.measure(A, push0)
            gb, bb, lb, db = cost.measure(B, push0)
        except ValueError as e:
            recs.append({"verdict": "unsupported", "why": str(e), "text": text})
            continue
        rec = {"text": text, "in": gasol.plain_of(A), "out": gasol.plain_of(B), "changed": A != B,
               "costs": {"gas": [ga, gb], "bytes": [ba, bb], "length": [la, lb]}, "verdict": "ok", "why": ""}
        crit = o["criteria"]
        sg, sb, sl = ga - gb, ba - bb, la - lb
        more_dyn = [k for k in db if db[k] > da.get(k, 0)]
        if more_dyn:
            rec["verdict"], rec["why"] = "costlier", "more occurrences of context dependent opcodes %s" % more_dyn
        main_saved = {"gas": sg, "size": sb, "length": sl}[crit]
        if main_saved < 0:
            rec["verdict"], rec["why"] = "costlier", "%s: %d -> %d" % (crit, {"gas": ga, "size": ba, "length": la}[crit],
                                                                         {"gas": gb, "size": bb, "length": lb}[crit])
        elif A != B:
            others = {"gas": (sb,), "size": (sg,), "length": (sg, sb)}[crit]
            if not cost.improves(main_saved, *others):
                rec["verdict"], rec["why"] = "changed-without-improving", "saved %s=%d others=%s" % (crit, main_saved, others)
        # the tool's own accounting against the independent table, on both blocks
        try:
            tool = []
            for blk, mine_g, mine_b, mine_l in ((b, ga, ba, la), (out_block, gb, bb, lb)):
                dyn_present = any(i.disasm in cost.DYNAMIC_MIN for i in blk.instructions)
                tb, tl = blk.bytes_required, blk.length
                if tb != mine_b or tl != mine_l:
                    rec["accounting"] = "tool bytes/length %d/%d, independent %d/%d on %s" % (tb, tl, mine_b, mine_l, blk.to_plain())
                if not dyn_present and blk.gas_spent != mine_g:
                    rec["accounting"] = "tool gas %d, independent %d on %s" % (blk.gas_spent, mine_g, blk.to_plain())
        except Exception as e:
            rec["accounting"] = "tool accounting raised %r" % (e,)
        recs.append(rec)
    return {"recs": recs}


def job(j):
    if j[0] == "logic":
        return logic_job(j[1:])
    return pipe_job(j[1:])


def main():
    tier = report.tier()
    rep = report.Report("C08", "translation_validation")
    logic = [("logic", "improves", 1), ("logic", "improves", 2), ("logic", "improves", 0)]
    logic += [("logic", "block_has_been_optimized", c) for c in ("gas", "size", "length")]
    logic += [("logic", "compare_best_block", c, n) for c in ("gas", "size", "length") for n in ((1, 2) if tier == "quick" else (1, 2, 3))]
    logic += [("logic", "get_ins_size")]
    logic += [("logic", "update_counts", "update_gas_count", "gas_spent", "previous_gas", "new_gas"),
              ("logic", "update_counts", "update_size_count", "bytes_required", "previous_size", "new_size")]
    ops, pairs = F.rule_opcodes()
    texts = F.f_rule_singles(ops, contexts=("stack",))
    texts += F.consuming_singles(ops + ["SMOD", "SAR", "BYTE", "SIGNEXTEND"])
    texts += F.f_rule_chains(ops, depth=3)
    texts += F.f_mem((2,), deltas=[0, 32])
    texts += F.f_every_static_opcode()
    texts += F.f_exh(2 if tier == "quick" else 3)
    if tier == "thorough":
        both = sorted(set(pairs) | {(b, a) for a, b in pairs})
        texts += F.f_rule_pairs(both, consts=[0, 1, F.MASK], contexts=("stack",))
        texts += F.f_mem((3,), deltas=[0, 16], ops=("MSTORE", "MLOAD", "MSTORE8"))
    texts = list(dict.fromkeys(texts))
    tasks = [(gasol.optset(), logic, 1)]
    for k, o in enumerate(gasol.QUICK_OPTSETS):
        if o["backend"] == "greedy":
            g = 1 if tier == "thorough" else 2
            jobs = [("pipe", t) for i, t in enumerate(texts) if i % g == k % g]
            tasks.append((o, jobs, 800))
        else:
            st = 40 if tier == "quick" else 8
            jobs = [("pipe", t) for i, t in enumerate(texts) if i % st == k % st]
            tasks.append((o, jobs, 100))
    results, stats = pool.run(tasks, "checks.c08:job", job_timeout=600)
    obligations = discharged = programs = changed = 0
    verdicts = {}
    samples = []
    inconclusive = []
    for o, j, r in results:
        if j[0] == "logic":
            if "obligations" not in r:
                rep.harness_error("logic job %r failed: %s" % (j, str(r)[:300]))
                continue
            obligations += r["obligations"]
            discharged += r["discharged"]
            inconclusive += r["inconclusive"]
            if r.get("stats"):
                stats.merge(r["stats"])
            for b in r["bad"]:
                rep.violation("logic:" + b["key"], b["what"] + " " + str(b.get("model", ""))[:300], b)
            continue
        if "recs" not in r:
            verdicts["harness"] = verdicts.get("harness", 0) + 1
            continue
        on = gasol.optset_name(o)
        for rec in r["recs"]:
            programs += 1
            v = rec["verdict"]
            verdicts[v] = verdicts.get(v, 0) + 1
            if rec.get("changed"):
                changed += 1
                if len(samples) < 8:
                    samples.append({"options": on, "in": rec["in"], "out": rec["out"], "costs": rec["costs"]})
            if v in ("costlier", "changed-without-improving"):
                rep.violation("%s:%s:%s" % (v, o["criteria"], rec["text"]),
                              "%s => %s: %s [options %s]" % (rec["in"], rec["out"], rec["why"], on),
                              {"options": o, "input": rec["text"], "core": rec["text"], "costs": rec["costs"]})
            if rec.get("accounting"):
                rep.violation("accounting:%s" % rec["text"], rec["accounting"] + " [options %s]" % on,
                              {"options": o, "input": rec["text"], "core": rec["text"]})
    rep.coverage = {
        "programs": programs, "disagreements_checked": changed, "verdicts": verdicts,
        "decision_logic": {"obligations": obligations, "discharged": discharged, "inconclusive": inconclusive[:20]},
        "samples": samples or [{"note": "none"}], "solver": stats.as_dict(), "templates": len(texts),
        "functions": ["gasol_asm.improves_criterion (AST)", "gasol_asm.block_has_been_optimized (AST)",
                      "gasol_asm.compare_best_block (AST)", "gasol_asm.update_gas_count/update_size_count (AST)",
                      "utils.get_ins_size/get_num_bytes_int (AST)", "pipeline + AsmBlock.bytes_required/gas_spent/length (native)"],
        "explanation": "programs = blocks through the real pipeline measured by the independent cost model; "
                       "disagreements_checked = blocks whose emitted form differs; decision logic = symbolic execution of "
                       "the source with symbolic cost vectors, one z3 query per path",
    }
    rep.assumptions = ["context dependent gas (storage/account access, hashing, EXP, logs) priced at its minimum together "
                       "with non-increasing occurrence counts; memory expansion gas not modelled",
                       "cost vectors in the decision logic range over [0, 2^40]"]
    sys.exit(rep.finish())


if __name__ == "__main__":
    if "--replay" in sys.argv:
        from vlib import replay
        sys.exit(replay.replay_block_pair(sys.argv[sys.argv.index("--replay") + 1]))
    main()
