"""C11 -- log replay reproduces the optimized code and rejects tampered logs.

1. (determinism premise, concrete) optimize with -log, then replay the written log in a fresh process: outputs equal.
2. (tamper space, bounded-exhaustive; acceptance decided by the solver) for each block every log over a small alphabet
   up to a length bound and every single-edit mutant of the genuine log is given to the real
   optimize_asm_block_from_log + compare_asm_block_asm_format (what optimize_asm_from_log does per block); whenever
   replay neither raises nor rejects, E1 decides  exists sigma. exec(replayed, sigma) != exec(original, sigma)."""
import itertools
import json
import os
import shutil
import sys
import tempfile

from vlib import families as F
from vlib import gasol, pool, report
from vlib.equiv import check_equiv


# ------------------------------------------------------------------------------------------------ part 1

def replay_job(j):
    """runs in a fresh process bound to the option set: optimize a document with a log; a second fresh process
    (spawned by main through a second job) replays it"""
    phase, doc, workdir = j
    import gasol_asm
    p = gasol.params()
    base = os.path.join(workdir, os.path.basename(doc).split(".")[0])
    p.input_file = doc
    p.input_format = "asm"
    p.seqs_file = base + "_seq.csv"
    p.blocks_file = base + "_blocks.csv"
    p.log_file = base + ".log"
    if phase == "optimize":
        p.generate_log = True
        p.optimized_file = base + "_optimized.json"
        with gasol.Silence():
            gasol_asm.optimize_asm_in_asm_format(p)
        return {"ok": True, "out": p.optimized_file, "log": p.log_file}
    p.optimized_file = base + "_from_log.json"
    with open(p.log_file) as f:
        log = json.load(f)
    with gasol.Silence():
        try:
            gasol_asm.optimize_asm_from_log(p, log)
        except Exception as e:
            return {"ok": False, "error": "%s: %s" % (type(e).__name__, str(e)[:300])}
    with open(base + "_optimized.json") as f:
        a = json.load(f)
    with open(p.optimized_file) as f:
        b = json.load(f)
    return {"ok": True, "equal": a == b, "log_entries": len(log)}


# ------------------------------------------------------------------------------------------------ part 2

def tamper_job(j):
    text, max_len = j
    import gasol_asm
    p = gasol.params()
    out = {"block": text, "logs": 0, "raised": 0, "rejected": 0, "accepted_equivalent": 0, "accepted_identical": 0,
           "undecided": 0, "bad": [], "genuine": None}
    blocks = gasol.parse_plain(text)
    if len(blocks) != 1:
        return out
    block = blocks[0]
    with gasol.Silence():
        try:
            new_block, log_dicts, _ = gasol_asm.optimize_asm_block_asm_format(block, p)
            sfs_all, _, sub_block_list, _, _ = gasol_asm.generate_sfs_dicts_from_log(block, {}, p)
        except Exception as e:
            out["error"] = repr(e)[:200]
            return out
    if not sfs_all:
        return out
    name = sorted(sfs_all)[0]
    spec = sfs_all[name]
    genuine = log_dicts.get(name)
    out["genuine"] = genuine
    ids = [i["id"] for i in spec["user_instrs"]]
    alphabet = ids + ["DUP1", "DUP2", "DUP3", "SWAP1", "SWAP2", "SWAP3", "POP", "FOREIGN_7", "ADD_9"]
    cands = []
    for n in range(0, max_len + 1):
        cands += [list(c) for c in itertools.product(alphabet, repeat=n)]
    # raw opcode names in place of ids: block-ending opcodes, instructions the block is split at, plain arithmetic
    raw = ["STOP", "RETURN", "REVERT", "INVALID", "SELFDESTRUCT", "JUMP", "JUMPI", "JUMPDEST", "GAS", "LOG0", "MSTORE", "ADD", "PUSH0"]
    shorts = [[]] + [[a] for a in alphabet]
    for base_c in shorts + ([list(genuine)] if genuine else []):
        for pos in range(len(base_c) + 1):
            for r in raw:
                cands.append(base_c[:pos] + [r] + base_c[pos:])
    if genuine:
        g = list(genuine)
        for i in range(len(g)):
            cands.append(g[:i] + g[i + 1:])
            cands.append(g[:i] + [g[i]] + g[i:])
            for a in alphabet:
                cands.append(g[:i] + [a] + g[i + 1:])
                cands.append(g[:i] + [a] + g[i:])
            if i + 1 < len(g):
                cands.append(g[:i] + [g[i + 1], g[i]] + g[i + 2:])
    seen = set()
    A = gasol.instrs_of(block)
    for cand in cands:
        key = tuple(cand)
        if key in seen:
            continue
        seen.add(key)
        out["logs"] += 1
        with gasol.Silence():
            try:
                rebuilt = gasol_asm.optimize_asm_block_from_log(block, sfs_all, sub_block_list, {name: cand})
                eq, reason = gasol_asm.compare_asm_block_asm_format(block, rebuilt, p)
            except Exception:
                out["raised"] += 1
                continue
        if not eq:
            out["rejected"] += 1
            continue
        B = gasol.instrs_of(rebuilt)
        if A == B:
            out["accepted_identical"] += 1
            continue
        # code behind an instruction that ends execution is dead: the rebuilt block behaves like its prefix
        for k, (nm, _) in enumerate(B[:-1]):
            if nm in ("STOP", "RETURN", "REVERT", "INVALID", "SELFDESTRUCT", "SUICIDE", "JUMP"):
                B = B[:k + 1]
                break
        r = check_equiv(A, B, 6000, kind="c11")
        if r.verdict == "equal":
            out["accepted_equivalent"] += 1
        elif r.verdict == "different":
            out["bad"].append({"log": cand, "rebuilt": gasol.plain_of(B), "why": r.reason, "observed": r.replay,
                               "state": r.state})
        elif r.verdict == "harness-error":
            out["harness_error"] = "model did not replay for log %s" % cand
        else:
            out["undecided"] += 1
    return out


def doc_tamper_job(j):
    """whole-document replay (the real optimize_asm_from_log) with tampered logs: it must raise, or every block of what
    it writes must be equivalent to the input block (E1)"""
    doc, workdir = j
    import gasol_asm
    from sfs_generator.parser_asm import parse_asm
    p = gasol.params()
    base = os.path.join(workdir, "dt_" + os.path.basename(doc).split(".")[0] + "_" + gasol.optset_name(gasol._OPTS).replace("/", "_"))
    p.input_file, p.input_format = doc, "asm"
    p.seqs_file, p.blocks_file, p.log_file = base + "_s.csv", base + "_b.csv", base + ".log"
    p.generate_log, p.optimized_file = True, base + "_opt.json"
    out = {"logs": 0, "raised": 0, "accepted": 0, "blocks_compared": 0, "bad": []}
    with gasol.Silence():
        gasol_asm.optimize_asm_in_asm_format(p)
    with open(p.log_file) as f:
        genuine = json.load(f)
    keys = sorted(genuine)
    if not keys:
        return out
    inputs = {b.block_name: b for b in gasol.blocks_of_document(doc)}
    picks = keys[:: max(1, len(keys) // 6)][:6]
    variants = []
    for k in picks:
        for repl, label in (([], "emptied"), (["POP"], "POP"), (genuine[k][:-1], "truncated"), (list(reversed(genuine[k])), "reversed"),
                            (genuine[k] + genuine[k][-1:], "last duplicated"), (["FOREIGN_9"], "foreign id")):
            t = dict(genuine)
            t[k] = repl
            variants.append((t, "%s %s" % (k, label)))
    variants.append(({k: [] for k in genuine}, "all entries emptied"))
    variants.append(({k: genuine[keys[(i + 1) % len(keys)]] for i, k in enumerate(keys)}, "entries rotated"))
    p.generate_log = False
    for tampered, label in variants:
        out["logs"] += 1
        p.optimized_file = base + "_t.json"
        try:
            with gasol.Silence():
                gasol_asm.optimize_asm_from_log(p, tampered)
        except Exception:
            out["raised"] += 1
            continue
        out["accepted"] += 1
        with gasol.Silence():
            res = parse_asm(p.optimized_file)
        for c in res.contracts:
            if not c.has_asm_field:
                continue
            blocks = list(c.init_code)
            for ident in c.get_data_ids_with_code():
                blocks += c.get_run_code(ident)
            for nb in blocks:
                ob = inputs.get(nb.block_name)
                if ob is None:
                    continue
                A, B = gasol.instrs_of(ob), gasol.instrs_of(nb)
                if A == B:
                    continue
                out["blocks_compared"] += 1
                r = check_equiv(A, B, 6000, kind="c11:doc")
                if r.verdict == "different":
                    out["bad"].append({"log": label, "block": nb.block_name, "input": gasol.plain_of(A), "rebuilt": gasol.plain_of(B),
                                       "why": r.reason, "observed": r.replay})
                    break
    return out


def job(j):
    if j[0] == "tamper":
        return tamper_job(j[1:])
    if j[0] == "doctamper":
        return doc_tamper_job(j[1:])
    return replay_job(j[1:])


def main():
    tier = report.tier()
    rep = report.Report("C11", "translation_validation")
    workdir = tempfile.mkdtemp(prefix="verif_c11_")
    try:
        docs = F.f_real_documents()
        ndocs = 2 if tier == "quick" else 6
        osets = [gasol.optset("storage", "gas", True, True, "greedy"), gasol.optset("partition", "size", True, True, "greedy")]
        # part 2 families
        ops, pairs = F.rule_opcodes()
        blocks = []
        # one block per kind of state-changing or state-reading instruction the checker has to account for (a checker that
        # overlooks one kind accepts a log that drops or rewires it), then the arithmetic and memory families
        blocks += ["DUP2 DUP2 MSTORE8", "DUP2 DUP2 MSTORE8 DUP1 MLOAD", "SWAP1 MSTORE8", "DUP2 DUP2 MSTORE", "DUP2 DUP2 SSTORE", "SWAP1 SSTORE",
                   "PUSH 20 DUP2 KECCAK256", "DUP2 DUP2 MSTORE8 DUP2 DUP2 MSTORE", "DUP1 SLOAD DUP2 MLOAD"]
        blocks += F.consuming_singles(["ADD", "SUB", "AND", "SHL", "LT", "ISZERO"])[:: 3]
        blocks += F.f_mem((2,), deltas=[0, 32])[:: 9]
        blocks += ["PUSH 1 DUP2 ADD PUSH 0 ADD", "DUP2 DUP2 SUB SWAP1 POP", "PUSH 3 PUSH 4 ADD DUP2 MUL",
                   "DUP1 DUP3 ADD DUP3 DUP3 ADD MUL", "CALLER PUSH ffffffffffffffffffffffffffffffffffffffff AND DUP2 EQ",
                   "DUP2 DUP2 MSTORE DUP1 MLOAD", "DUP3 DUP3 SSTORE DUP2 SLOAD DUP2 ADD", "PUSH 20 DUP2 KECCAK256 DUP2 MLOAD"]
        blocks = list(dict.fromkeys(blocks))
        if tier == "quick":
            blocks = blocks[:48]
        max_len = 3 if tier == "quick" else 4
        tasks = [(gasol.optset("none", "gas", True, True, "greedy"), [("tamper", b, max_len) for b in blocks], 1)]
        for k, o in enumerate(osets):
            tasks.append((o, [("replay", "optimize", docs[(k * ndocs + i) % len(docs)], workdir) for i in range(ndocs)], 1))
            tasks.append((o, [("doctamper", docs[(k * ndocs + i + 7) % len(docs)], workdir) for i in range(1 if tier == "quick" else 3)], 1))
        results, stats = pool.run(tasks, "checks.c11:job", job_timeout=1500)
        # second phase of part 1 in fresh processes
        tasks2 = []
        for k, o in enumerate(osets):
            tasks2.append((o, [("replay", "replay", docs[(k * ndocs + i) % len(docs)], workdir) for i in range(ndocs)], 1))
        results2, _ = pool.run(tasks2, "checks.c11:job", job_timeout=1500)
        logs = accepted = raised = rejected = 0
        roundtrips = 0
        samples = []
        for o, j, r in results:
            if j[0] == "replay":
                if not r.get("ok"):
                    rep.harness_error("optimize phase failed for %s: %s" % (j[2], str(r)[:300]))
                continue
            if j[0] == "doctamper":
                if "logs" not in r:
                    rep.harness_error("document tamper job failed: %s" % str(r)[:300])
                    continue
                logs += r["logs"]
                raised += r["raised"]
                accepted += r["accepted"]
                for b in r["bad"]:
                    rep.violation("doc-tamper:%s:%s" % (os.path.basename(j[1]), b["log"]),
                                  "whole-document replay accepts the tampered log (%s) and emits %s for block %s (input %s): %s; %s"
                                  % (b["log"], b["rebuilt"], b["block"], b["input"], b["why"], b["observed"]), {"options": o, **b})
                continue
            if "logs" not in r:
                rep.harness_error("tamper worker failed on %r: %s" % (j, str(r)[:300]))
                continue
            logs += r["logs"]
            raised += r["raised"]
            rejected += r["rejected"]
            accepted += r["accepted_equivalent"] + r["accepted_identical"] + len(r["bad"])
            if r.get("harness_error"):
                rep.harness_error(r["harness_error"])
            if len(samples) < 8 and r["genuine"]:
                samples.append({"block": r["block"], "genuine_log": r["genuine"], "logs_tried": r["logs"],
                                "accepted_equivalent": r["accepted_equivalent"], "rejected": r["rejected"], "raised": r["raised"]})
            for b in r["bad"]:
                rep.violation("tamper:%s:%s" % (r["block"], " ".join(b["log"])),
                              "log %s is accepted and rebuilds %s, which differs from the input: %s; %s"
                              % (b["log"], b["rebuilt"], b["why"], b["observed"]),
                              {"options": o, "input": r["block"], "log": b["log"], "state": b["state"]})
        for o, j, r in results2:
            on = gasol.optset_name(o)
            if not r.get("ok"):
                rep.violation("replay:%s:%s" % (os.path.basename(j[2]), on),
                              "replaying the genuine log fails: %s" % r.get("error", r), {"options": o, "document": j[2]})
            elif not r.get("equal"):
                rep.violation("replay-differs:%s:%s" % (os.path.basename(j[2]), on),
                              "replaying the genuine log does not reproduce the optimized file", {"options": o, "document": j[2]})
            else:
                roundtrips += 1
        rep.coverage = {
            "programs": logs, "disagreements_checked": accepted,
            "logs_raised": raised, "logs_rejected_by_checker": rejected, "log_roundtrips_equal": roundtrips,
            "blocks": len(blocks), "max_log_length": max_len, "samples": samples or [{"note": "none"}],
            "solver": stats.as_dict(),
            "functions": ["gasol_asm.optimize_asm_block_from_log", "gasol_asm.compare_asm_block_asm_format",
                          "gasol_asm.optimize_asm_in_asm_format (generate_log)", "gasol_asm.optimize_asm_from_log"],
            "explanation": "programs = tampered logs tried (all sequences over the block's ids + DUP/SWAP/POP + two foreign ids up "
                           "to the length bound, and all single-edit mutants of the genuine log); disagreements_checked = logs "
                           "the replay accepted, each decided by the SMT equivalence query against the input block",
        }
        rep.assumptions = ["offsets/lengths < 2^32"]
        code = rep.finish()
    finally:
        shutil.rmtree(workdir, ignore_errors=True)
    sys.exit(code)


if __name__ == "__main__":
    main()
