"""C01 -- optimized blocks are observationally equivalent to the original.

Translation validation of the real pipeline: every block of the families is run through
optimize -> compare -> keep-or-revert under each option set (fresh process per option set) and the block that would be
emitted is compared with the input by the E1 SMT query  exists sigma. exec(B',sigma) != exec(B,sigma)."""
import json
import sys
import time

from vlib import families as F
from vlib import gasol, pool, report, selftest
from vlib import blockcheck as BC


def job(j):
    kind = j[0]
    if kind == "text":
        text = j[1]
        recs = BC.validate_text(text)
        for rec in recs:
            if rec["verdict"] == "different":
                toks = BC.tokens_of_text(text)

                def still(cand):
                    try:
                        rr = BC.validate_text(" ".join(cand), timeout_ms=2000)
                    except Exception:
                        return False
                    return any(r["verdict"] == "different" for r in rr)
                core = BC.minimise(toks, still) if len(toks) <= 14 else toks
                rec["core"] = " ".join(core)
        return {"job": j, "recs": recs}
    if kind == "doc":
        _, path, lo, hi = j
        blocks = gasol.blocks_of_document(path)[lo:hi]
        recs = []
        for b in blocks:
            if b.instructions_to_optimize_plain() == []:
                continue
            rec, _ = BC.validate_block(b)
            rec["block"] = b.block_name
            if rec["verdict"] == "different":
                rec["core"] = rec["in"]
            recs.append(rec)
        return {"job": j, "recs": recs}
    raise ValueError(kind)


def build_jobs(tier):
    ops, pairs = F.rule_opcodes()
    both = sorted(set(pairs) | {(b, a) for a, b in pairs})
    texts = []
    texts += F.f_rule_singles(ops, contexts=("stack", "consumed") if tier == "quick" else ("stack", "consumed", "twice"))
    texts += F.consuming_singles(ops + ["SMOD", "SAR", "BYTE", "SIGNEXTEND"])
    texts += F.f_rule_chains(ops, depth=3 if tier == "quick" else 4)
    if tier == "quick":
        texts += F.f_rule_pairs(both, consts=[0, 1, F.MASK], contexts=("stack",))
        texts += F.f_mem((2,), deltas=[0, 1, 31, 32, 33])
        texts += F.f_mem((3,), deltas=[0, 16, 32], ops=("MSTORE", "MLOAD", "MSTORE8"))[::2]
        texts += F.f_mem_byte_in_word()
        texts += F.f_mem_shared_values(deltas=(0, 1, 32), tail=(None, "MLOAD"))[::2]
        texts += F.f_mem_repeated_store(deltas=(0, 1, 32))[::2]
        texts += F.f_exh(2)
    else:
        texts += F.f_rule_pairs(both, consts=F.K3, contexts=("stack", "consumed"), chains=(0, 1))
        texts += F.f_mem((2,))
        texts += F.f_mem((3,), deltas=[0, 1, 32], ops=("MSTORE", "MLOAD", "MSTORE8", "KECCAK256"))
        texts += F.f_mem((3,), deltas=[0, 32], ops=("SSTORE", "SLOAD"))
        texts += F.f_mem((2,), deltas=[0, 32], mixed=True)
        texts += F.f_mem_byte_in_word(deltas=(0, 1, 16, 31, 32, 33))
        texts += F.f_mem_shared_values()
        texts += F.f_mem_repeated_store()
        texts += F.f_exh(3)
    texts += F.f_rule_siblings(ops, consts=(0, 1))[:: (4 if tier == "quick" else 1)]
    texts += F.f_rule_triples(both)[:: (4 if tier == "quick" else 1)]
    texts += F.deep_stack_blocks()
    texts += F.f_rule_existing()[:: (96 if tier == "quick" else 3)]
    texts += F.f_mem_consuming()
    texts += F.f_keccak_pairs()[:: (2 if tier == "quick" else 1)]
    # opcodes the folding code names in lower case only (the AST extraction of rule opcodes does not see them): two- and
    # three-constant forms reach compute_binary / compute_ternary for them
    texts += F.f_rule_singles(["SAR", "SMOD", "BYTE", "SIGNEXTEND", "ADDMOD", "MULMOD", "MOD"], contexts=("stack",))[:: (6 if tier == "quick" else 1)]
    texts += F.f_long_partition(lengths=(23, 31), max_stores=2)[:: (8 if tier == "quick" else 1)]
    texts += F.f_rule_singles(ops, contexts=("both", "bothstore"))[:: (9 if tier == "quick" else 1)]
    texts += F.f_rule_pairs(both, consts=[0, 1], contexts=("both",))[:: (36 if tier == "quick" else 1)]
    texts += F.f_mid_terminal()[:: (3 if tier == "quick" else 1)]
    # MSIZE observes memory expansion: removing a dead load or hash before it is visible
    texts += ["PUSH ffff MLOAD POP MSIZE", "MSIZE PUSH ffff MLOAD POP MSIZE", "DUP1 MLOAD POP MSIZE", "PUSH 20 DUP2 KECCAK256 POP MSIZE",
              "MSIZE DUP2 MLOAD ADD", "DUP2 DUP2 MSTORE MSIZE", "MSIZE MSIZE SUB"]
    seen = set()
    uniq = []
    for t in texts:
        if t not in seen:
            seen.add(t)
            uniq.append(t)
    return ops, uniq


def main():
    tier = report.tier()
    rep = report.Report("C01", "translation_validation")
    st = selftest.run(25 if tier == "quick" else 120, report.seed())
    if st["mismatch"]:
        rep.harness_error("E1 encoder and concrete twin disagree: %r" % (st["mismatch"],))
        sys.exit(rep.finish())
    ops, texts = build_jobs(tier)
    optsets = gasol.QUICK_OPTSETS
    docs = F.f_real_documents()
    per_doc = 100 if tier == "thorough" else 40
    ndocs = len(docs) if tier == "thorough" else 8
    tasks = []
    # the Max-SMT back ends cost ~0.3 s per block (solver process): they get a fixed stride of the templates;
    # quick: only the default option set sees every template, the other greedy sets a sixth each
    stride = {"quick": 90, "thorough": 12}[tier]
    gstride = {"quick": 6, "thorough": 1}[tier]
    for k, o in enumerate(optsets):
        if o["backend"] == "greedy":
            g = 1 if k == 0 else gstride
            jobs = [("text", t) for i, t in enumerate(texts) if i % g == k % g]
        else:
            jobs = [("text", t) for i, t in enumerate(texts) if i % stride == k % stride or len(t.split()) <= 2]
        # real documents: every option set sees a different rotating slice of documents in quick mode
        dsel = docs[:ndocs] if tier == "thorough" else [docs[(k * 2 + i) % len(docs)] for i in range(2 if o["backend"] == "greedy" else 1)]
        for d in dsel:
            for lo in range(0, per_doc if o["backend"] == "greedy" else (per_doc // 2 if tier == "quick" else 20), 20):
                jobs.append(("doc", d, lo, lo + 20))
        tasks.append((o, jobs, 1000 if o["backend"] == "greedy" else 120))
    if tier == "thorough":
        # the full option product on the rule and memory templates only
        small = [t for t in texts if len(t.split()) <= 8][::3][:2500]
        quickset = {gasol.optset_name(o) for o in optsets}
        for k, o in enumerate(gasol.ALL_OPTSETS):
            if gasol.optset_name(o) not in quickset:
                tasks.append((o, [("text", t) for i, t in enumerate(small)
                                  if o["backend"] == "greedy" or i % 10 == k % 10]))
    t0 = time.time()
    results, stats = pool.run(tasks, "checks.c01:job", job_timeout=300, chunk=150)
    programs = changed = 0
    verdicts = {}
    samples = []
    per_opt = {}
    nontrivial = set()
    timing = {}
    slowest = []
    for o, j, r in results:
        on = gasol.optset_name(o)
        timing[on] = round(timing.get(on, 0) + r.get("_secs", 0), 1)
        slowest.append((r.get("_secs", 0), on, j[1] if j[0] == "text" else list(j[1:])))
        if "recs" not in r:
            verdicts["harness:" + next(k for k in r if k.startswith("harness"))] = \
                verdicts.get("harness:" + next(k for k in r if k.startswith("harness")), 0) + 1
            continue
        for rec in r["recs"]:
            programs += 1
            v = rec["verdict"]
            verdicts[v] = verdicts.get(v, 0) + 1
            per_opt.setdefault(on, {}).setdefault(v, 0)
            per_opt[on][v] += 1
            if rec["changed"]:
                changed += 1
                nontrivial.add((rec["in"], rec["out"]))
                if len(samples) < 12 and v == "equal":
                    samples.append({"options": on, "in": rec["in"], "out": rec["out"], "verdict": v, "stage": rec.get("stage")})
            if v == "different":
                key = "core=" + rec["core"]
                rep.violation(key, "emitted block differs from the input: %s; observed: %s [options %s]"
                              % (rec["why"], rec["observed"], on),
                              {"options": o, "input": rec["in"], "output": rec["out"], "state": rec["state"],
                               "core": rec["core"], "observed": rec["observed"]})
            if v == "harness-error":
                rep.harness_error("precise model did not replay: %s => %s (%s)" % (rec["in"], rec["out"], rec["why"]))
    rep.coverage = {
        "programs": programs, "disagreements_checked": changed,
        "distinct_changed_pairs": len(nontrivial),
        "verdicts": verdicts, "per_option_set": per_opt,
        "option_sets": [gasol.optset_name(t[0]) for t in tasks],
        "family_sizes": {"templates": len(texts), "rule_opcodes_extracted": ops},
        "samples": samples or [{"note": "no changed block"}],
        "solver": stats.as_dict(), "encoder_selftest": st,
        "cpu_seconds_per_option_set": timing, "slowest_jobs": sorted(slowest, key=lambda x: -x[0])[:15],
        "functions": ["gasol_asm.optimize_asm_block_asm_format", "gasol_asm.compare_asm_block_asm_format",
                      "keep-or-revert as in gasol_asm.optimize_asm_contract"],
        "stubs": ["smt_encoding.solver.z3_executable.z3_exec -> /usr/bin/z3 (stand-in Max-SMT solver)"],
        "bounds": "families of DESIGN 4.5 (tier %s); Max-SMT timeout 2s*(1+#stores); solver timeout %d ms per query" % (tier, BC.TIMEOUT_MS),
        "explanation": "programs = blocks run through the real pipeline; disagreements_checked = blocks whose emitted "
                       "form differs from the input, each decided by the SMT equivalence query",
    }
    rep.assumptions = ["every memory offset/length used by either block is < 2^32", "enough stack, no gas exhaustion",
                       "ADDRESS/ORIGIN/CALLER/COINBASE < 2^160; BALANCE(ADDRESS)=SELFBALANCE",
                       "MSIZE is modelled as the highest touched address rounded up to a word; blocks containing PC are not "
                       "comparable and are skipped (counted as unsupported)"]
    sys.exit(rep.finish())


if __name__ == "__main__":
    if "--replay" in sys.argv:
        from vlib import replay
        sys.exit(replay.replay_block_pair(sys.argv[sys.argv.index("--replay") + 1]))
    main()
