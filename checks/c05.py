"""C05 -- the built-in equivalence checker never accepts distinguishable blocks; it is reflexive and does not raise.

Pairs (B, B') are built with the mutation operators the property names.  The real compare_asm_block_asm_format is
run on each pair; only when it answers *equal* the SMT query  exists sigma. exec(B,sigma) != exec(B',sigma)  (E1) is
asked, and `sat` (replayed on the concrete twin) is an unsound acceptance."""
import re
import sys

from vlib import families as F
from vlib import gasol, pool, report
from vlib import evm_smt as E
from vlib import blockcheck as BC
from vlib.equiv import check_equiv

SUBST = {"SDIV": ["DIV"], "DIV": ["SDIV"], "SMOD": ["MOD"], "MOD": ["SMOD"], "SLT": ["LT"], "LT": ["SLT", "GT"],
         "SGT": ["GT"], "GT": ["SGT", "LT"], "SAR": ["SHR", "SHL"], "SHR": ["SAR", "SHL"], "SHL": ["SHR", "SAR"],
         "ADD": ["SUB", "OR"], "SUB": ["ADD"], "AND": ["OR"], "OR": ["AND", "XOR"], "XOR": ["OR"], "MSTORE": ["MSTORE8"],
         "MSTORE8": ["MSTORE"], "EQ": ["LT"], "MUL": ["ADD"], "ISZERO": ["NOT"], "NOT": ["ISZERO"], "BYTE": ["SHR"],
         "MLOAD": ["SLOAD"], "SLOAD": ["MLOAD"], "SSTORE": ["MSTORE"], "CALLER": ["ORIGIN"], "ADDRESS": ["CALLER"]}
NONCOMM = {"SUB", "DIV", "SDIV", "MOD", "SMOD", "EXP", "LT", "GT", "SLT", "SGT", "SHL", "SHR", "SAR", "BYTE", "SIGNEXTEND",
           "MSTORE", "SSTORE", "MSTORE8", "KECCAK256"}


def mutants(text):
    toks = BC.tokens_of_text(text)
    out = []
    for i, t in enumerate(toks):
        name = t.split(" ")[0]
        if name in NONCOMM:
            out.append((" ".join(toks[:i] + ["SWAP1"] + toks[i:]), "operand-swap"))
        for alt in SUBST.get(t, []):
            out.append((" ".join(toks[:i] + [alt] + toks[i + 1:]), "opcode-substitution"))
        if t.startswith("PUSH ") and len(t.split(" ")) == 2:
            c = int(t.split(" ")[1], 16)
            for c2 in {(c + 1) & F.MASK, (c - 1) & F.MASK, c ^ (1 << 255), c ^ 0x100}:
                if c2 != c:
                    out.append((" ".join(toks[:i] + ["PUSH %x" % c2] + toks[i + 1:]), "constant-change"))
        m = re.fullmatch(r"(DUP|SWAP)(\d+)", t)
        if m:
            k = int(m.group(2))
            for k2 in (k - 1, k + 1):
                if 1 <= k2 <= 16:
                    cand = toks[:i] + [m.group(1) + str(k2)] + toks[i + 1:]
                    try:
                        if E.needed_depth([BC._tok2(x) for x in cand])[0] <= 16:
                            out.append((" ".join(cand), "dup-swap-index"))
                    except E.Unsupported:
                        pass
    return out


def compare(text_a, text_b):
    import gasol_asm
    a = gasol.parse_plain(text_a)
    b = gasol.parse_plain(text_b)
    if len(a) != 1 or len(b) != 1:
        return None, "not single blocks", None, None
    with gasol.Silence():
        try:
            eq, reason = gasol_asm.compare_asm_block_asm_format(a[0], b[0], gasol.params())
        except Exception as e:
            return "raised", "%s: %s" % (type(e).__name__, e), a[0], b[0]
    return bool(eq), reason, a[0], b[0]


def job(j):
    kind = j[0]
    recs = []
    if kind == "reflexive":
        text = j[1]
        eq, reason, a, b = compare(text, text)
        recs.append({"kind": "reflexive", "a": text, "verdict": "ok" if eq is True else ("raised" if eq == "raised" else "not-reflexive"),
                     "why": reason})
        return {"recs": recs}
    if kind == "pair":
        _, ta, tb, op = j
        pairs = [(ta, tb, op)]
    else:
        pairs = [(j[1], m, op) for m, op in mutants(j[1])]
    for ta, tb, op in pairs:
        eq, reason, a, b = compare(ta, tb)
        rec = {"kind": op, "a": ta, "b": tb, "checker": eq, "why": reason}
        if eq is True:
            r = check_equiv(gasol.instrs_of(a), gasol.instrs_of(b), 8000, kind="c05")
            rec["verdict"] = {"equal": "accepted-equivalent", "different": "UNSOUND", "unknown": "accepted-undecided",
                              "unsupported": "accepted-unsupported", "spurious": "accepted-undecided",
                              "harness-error": "harness-error"}[r.verdict]
            if r.verdict == "different":
                rec["observed"] = r.replay
                rec["state"] = r.state
                rec["why"] = r.reason
        elif eq == "raised":
            rec["verdict"] = "checker-raised"
        else:
            rec["verdict"] = "rejected"
        recs.append(rec)
    return {"recs": recs}


def main():
    tier = report.tier()
    rep = report.Report("C05", "translation_validation")
    ops, pairs = F.rule_opcodes()
    base = []
    base += F.consuming_singles(ops + ["SMOD", "SAR", "BYTE", "SIGNEXTEND", "MOD"])
    base += F.f_rule_singles(ops + ["SMOD", "SAR", "MOD"], contexts=("stack",))[:: (3 if tier == "quick" else 1)]
    base += F.f_rule_chains(ops, depth=2)
    base += F.f_mem((2,), deltas=[0, 1, 32])[:: (2 if tier == "quick" else 1)]
    base += F.f_exh(2 if tier == "quick" else 3)
    if tier == "thorough":
        both = sorted(set(pairs) | {(b, a) for a, b in pairs})
        base += F.f_rule_pairs(both, consts=[0, 1, F.MASK], contexts=("stack",))
        base += F.f_mem((3,), deltas=[0, 16], ops=("MSTORE", "MLOAD", "MSTORE8"))
    base = list(dict.fromkeys(base))
    mem_pairs = F.f_mem_mutant_pairs(deltas=(0, 1, 32), length=2)
    mem_pairs += F.f_mem_move_pairs(deltas=(0, 8, 40), length=3, n_stores=(1, 2))
    if tier == "thorough":
        mem_pairs += F.f_mem_mutant_pairs(deltas=(0, 16), ops=("MSTORE", "MSTORE8", "SSTORE"), length=3)
        mem_pairs += F.f_mem_move_pairs(deltas=(0, 8, 16, 40), length=4)
    else:
        mem_pairs += F.f_mem_move_pairs(deltas=(0, 8, 16, 40), length=4)[::8]
    tasks = []
    osets = [gasol.optset("none", "gas", True, True, "greedy"), gasol.optset("none", "gas", False, True, "greedy"),
             gasol.optset("storage", "gas", True, True, "greedy"), gasol.optset("partition", "size", True, False, "greedy")]
    for k, o in enumerate(osets):
        g = 1 if k == 0 else (4 if tier == "quick" else 2)
        jobs = [("mutate", t) for i, t in enumerate(base) if i % g == 0]
        jobs += [("pair", a, b, op) for i, (a, b, op) in enumerate(mem_pairs) if i % g == 0]
        jobs += [("reflexive", t) for i, t in enumerate(base) if i % g == 0]
        tasks.append((o, jobs, 100))
    results, stats = pool.run(tasks, "checks.c05:job", job_timeout=300)
    programs = accepted = 0
    verdicts = {}
    by_op = {}
    samples = []
    for o, j, r in results:
        on = gasol.optset_name(o)
        if "recs" not in r:
            verdicts["harness"] = verdicts.get("harness", 0) + 1
            continue
        for rec in r["recs"]:
            programs += 1
            v = rec["verdict"]
            verdicts[v] = verdicts.get(v, 0) + 1
            by_op.setdefault(rec["kind"], {}).setdefault(v, 0)
            by_op[rec["kind"]][v] += 1
            if v.startswith("accepted") or v == "UNSOUND":
                accepted += 1
                if len(samples) < 8 and v == "accepted-equivalent":
                    samples.append({"a": rec["a"], "b": rec["b"], "mutation": rec["kind"], "checker": "equal", "smt": "equivalent"})
            if v == "UNSOUND":
                rep.violation("unsound:%s:%s => %s" % (rec["kind"], rec["a"], rec["b"]),
                              "checker answers equal but a state separates the blocks: %s; %s [options %s]" % (rec["why"], rec.get("observed"), on),
                              {"options": o, "a": rec["a"], "b": rec["b"], "state": rec.get("state"), "observed": rec.get("observed")})
            if v == "not-reflexive":
                rep.violation("reflexive:" + rec["a"], "checker does not accept a block compared with itself: %s [options %s]" % (rec["why"], on),
                              {"options": o, "a": rec["a"]})
            if v in ("raised", "checker-raised"):
                rep.violation("raises:%s%s" % (rec["a"], (" => " + rec["b"]) if rec.get("b") else ""),
                              "checker raises on well-formed input: %s [options %s]" % (rec["why"], on),
                              {"options": o, "a": rec["a"], "b": rec.get("b")})
            if v == "harness-error":
                rep.harness_error("model did not replay: %s vs %s" % (rec["a"], rec["b"]))
    rep.coverage = {
        "programs": programs, "disagreements_checked": accepted, "verdicts": verdicts, "by_mutation": by_op,
        "samples": samples or [{"note": "none"}], "solver": stats.as_dict(), "base_blocks": len(base),
        "functions": ["gasol_asm.compare_asm_block_asm_format", "verification.sfs_verify.verify_block_from_list_of_sfs"],
        "explanation": "programs = (B, B') pairs and reflexive comparisons given to the real checker; "
                       "disagreements_checked = pairs the checker accepted as equal, each decided by the SMT query",
        "bounds": "mutation operators: operand swap, signed/unsigned and shift-kind substitution, constant +-1 / bit flips, "
                  "dropped/duplicated/transposed stores, DUP/SWAP index +-1 on the stated families; the external forves "
                  "adapter is not exercised (no forves binary in the sandbox; stated as outside the claim)",
    }
    rep.assumptions = ["offsets/lengths < 2^32", "ADDRESS/ORIGIN/CALLER/COINBASE < 2^160"]
    sys.exit(rep.finish())


if __name__ == "__main__":
    main()
