"""C05 -- the built-in equivalence checker never accepts distinguishable blocks; it is reflexive and does not raise.

Pairs (B, B') are built with the mutation operators the property names.  The real compare_asm_block_asm_format is
run on each pair; only when it answers *equal* the SMT query  exists sigma. exec(B,sigma) != exec(B',sigma)  (E1) is
asked, and `sat` (replayed on the concrete twin) is an unsound acceptance."""
import re
import sys

from vlib import families as F
from vlib import gasol, pool, report
from vlib import evm_smt as E
from vlib import blockcheck as BC
from vlib.equiv import check_equiv

SUBST = {"SDIV": ["DIV"], "DIV": ["SDIV"], "SMOD": ["MOD"], "MOD": ["SMOD"], "SLT": ["LT"], "LT": ["SLT", "GT"],
         "SGT": ["GT"], "GT": ["SGT", "LT"], "SAR": ["SHR", "SHL"], "SHR": ["SAR", "SHL"], "SHL": ["SHR", "SAR"],
         "ADD": ["SUB", "OR"], "SUB": ["ADD"], "AND": ["OR"], "OR": ["AND", "XOR"], "XOR": ["OR"], "MSTORE": ["MSTORE8"],
         "MSTORE8": ["MSTORE"], "EQ": ["LT"], "MUL": ["ADD"], "ISZERO": ["NOT"], "NOT": ["ISZERO"], "BYTE": ["SHR"],
         "MLOAD": ["SLOAD"], "SLOAD": ["MLOAD"], "SSTORE": ["MSTORE"], "CALLER": ["ORIGIN"], "ADDRESS": ["CALLER"]}
NONCOMM = {"SUB", "DIV", "SDIV", "MOD", "SMOD", "EXP", "LT", "GT", "SLT", "SGT", "SHL", "SHR", "SAR", "BYTE", "SIGNEXTEND",
           "MSTORE", "SSTORE", "MSTORE8", "KECCAK256"}


def mutants(text):
    toks = BC.tokens_of_text(text)
    out = []
    for i, t in enumerate(toks):
        name = t.split(" ")[0]
        if name in NONCOMM:
            out.append((" ".join(toks[:i] + ["SWAP1"] + toks[i:]), "operand-swap"))
        for alt in SUBST.get(t, []):
            out.append((" ".join(toks[:i] + [alt] + toks[i + 1:]), "opcode-substitution"))
        if t.startswith("PUSH ") and len(t.split(" ")) == 2:
            c = int(t.split(" ")[1], 16)
            for c2 in {(c + 1) & F.MASK, (c - 1) & F.MASK, c ^ (1 << 255), c ^ 0x100}:
                if c2 != c:
                    out.append((" ".join(toks[:i] + ["PUSH %x" % c2] + toks[i + 1:]), "constant-change"))
        m = re.fullmatch(r"(DUP|SWAP)(\d+)", t)
        if m:
            k = int(m.group(2))
            for k2 in (k - 1, k + 1):
                if 1 <= k2 <= 16:
                    cand = toks[:i] + [m.group(1) + str(k2)] + toks[i + 1:]
                    try:
                        if E.needed_depth([BC._tok2(x) for x in cand])[0] <= 16:
                            out.append((" ".join(cand), "dup-swap-index"))
                    except E.Unsupported:
                        pass
    return out


def compare(text_a, text_b):
    import gasol_asm
    a = gasol.parse_plain(text_a)
    b = gasol.parse_plain(text_b)
    if len(a) != 1 or len(b) != 1:
        return None, "not single blocks", None, None
    with gasol.Silence():
        try:
            eq, reason = gasol_asm.compare_asm_block_asm_format(a[0], b[0], gasol.params())
        except Exception as e:
            return "raised", "%s: %s" % (type(e).__name__, e), a[0], b[0]
    return bool(eq), reason, a[0], b[0]


# ---------------------------------------------------------------------------------------------------------------
# forves adapter clause: "reports 'true' only for pairs it has rendered faithfully"
FORVES_META = {0: "PUSHDEPLOYADDRESS", 1: "PUSHSIZE", 2: "PUSHLIB", 3: "PUSHIMMUTABLE", 4: "PUSH data", 5: "PUSH [tag]",
               6: "PUSH [$]", 7: "PUSH #[$]"}


def read_forves(text):
    """independent reader of the documented text format of the external checker: records of four lines
    '#', optimized sequence, original sequence, stack size; PUSHn 0x<hex>; METAPUSH <kind> 0x<hex>"""
    lines = text.split("\n")
    if len(lines) % 4:
        raise ValueError("not a sequence of 4-line records")
    out = []
    for k in range(0, len(lines), 4):
        if lines[k] != "#":
            raise ValueError("record does not start with #")
        int(lines[k + 3])
        pair = []
        for line in (lines[k + 2], lines[k + 1]):
            toks = line.split(" ") if line else []
            seq = []
            i = 0
            while i < len(toks):
                t = toks[i]
                m = re.fullmatch(r"PUSH(\d+)", t)
                if m:
                    v = toks[i + 1]
                    if not v.startswith("0x") or not 1 <= int(m.group(1)) <= 32 or int(v, 16) >= 1 << (8 * int(m.group(1))):
                        raise ValueError("bad push %s %s" % (t, v))
                    seq.append(("PUSH", "%x" % int(v, 16)))
                    i += 2
                elif t == "METAPUSH":
                    kind = FORVES_META[int(toks[i + 1])]
                    v = toks[i + 2]
                    if not v.startswith("0x"):
                        raise ValueError("bad metapush operand")
                    seq.append((kind, None if kind in ("PUSHDEPLOYADDRESS", "PUSHSIZE") else v[2:]))
                    i += 3
                else:
                    seq.append((t, None))
                    i += 1
            pair.append(seq)
        out.append(tuple(pair))
    return out


_IDEAL = {"undecided": 0, "pairs": 0, "rendered": None}


def _ideal_checker(cmd):
    """stand-in for bin/forves-checker (stub, listed in evidence): an *ideal* external checker that answers true
    exactly when every rendered (original, optimized) pair is equivalent for all states (decided by E1)."""
    m = re.search(r"-i (\S+)", cmd)
    text = open(m.group(1)).read()
    _IDEAL["rendered"] = text
    try:
        pairs = read_forves(text)
    except Exception as e:                       # noqa
        _IDEAL["rendered"] = "unreadable: %s" % e
        return "parsing error"
    for orig, opt in pairs:
        _IDEAL["pairs"] += 1
        try:
            r = check_equiv(orig, opt, 8000, kind="c05")
        except Exception:                        # noqa
            _IDEAL["undecided"] += 1
            return "false"
        if r.verdict == "different":
            return "false"
        if r.verdict != "equal":
            _IDEAL["undecided"] += 1
            return "false"
    return "true"


def forves_adapter(plain_a, plain_b, criteria):
    import tempfile, os, shutil
    import global_params.paths as paths
    import verification.forves_verification as fv
    d = tempfile.mkdtemp(prefix="verif_forves_")
    os.makedirs(os.path.join(d, "bin"))
    open(os.path.join(d, "bin", "forves-checker"), "w").close()
    old_path, old_run = paths.project_path, fv.run_command
    paths.project_path, fv.run_command = d, _ideal_checker
    _IDEAL["rendered"] = None
    try:
        with gasol.Silence():
            return fv.compare_forves(plain_a, plain_b, criteria, True), _IDEAL["rendered"]
    except Exception as e:                        # noqa
        return "raised %s: %s" % (type(e).__name__, str(e)[:80]), _IDEAL["rendered"]
    finally:
        paths.project_path, fv.run_command = old_path, old_run
        shutil.rmtree(d, ignore_errors=True)


def forves_mutants(text):
    """the operators of mutants() plus the ones that matter for a segment-wise rendering: an instruction moved
    across a split instruction, the operand of ASSIGNIMMUTABLE changed, a split instruction replaced/dropped"""
    toks = BC.tokens_of_text(text)
    out = [(text, "identity")]
    out += mutants(text)
    for i, t in enumerate(toks):
        if t.split(" ")[0] in FORVES_SPLITS:
            if i > 0:
                out.append((" ".join(toks[:i - 1] + [t, toks[i - 1]] + toks[i + 1:]), "move-across-split"))
            if i + 1 < len(toks):
                out.append((" ".join(toks[:i] + [toks[i + 1], t] + toks[i + 2:]), "move-across-split"))
            if t.startswith("ASSIGNIMMUTABLE "):
                out.append((" ".join(toks[:i] + ["ASSIGNIMMUTABLE 6"] + toks[i + 1:]), "split-operand"))
            alt = "LOG1" if t == "LOG0" else ("LOG0" if t == "LOG1" else None)
            if alt:
                out.append((" ".join(toks[:i] + [alt] + toks[i + 1:]), "split-substitution"))
    good = []
    for m, op in out:
        try:
            if E.needed_depth([BC._tok2(x) for x in BC.tokens_of_text(m)])[0] <= 16:
                good.append((m, op))
        except Exception:                         # noqa
            pass
    return good


FORVES_SPLITS = ("GAS", "LOG0", "LOG1", "ASSIGNIMMUTABLE", "CALLDATACOPY")


def forves_bases(stride1, stride2):
    """blocks with one or two split instructions around short segments (fixed strides: seed independent)"""
    import itertools
    small = ["PUSH 0", "PUSH 5", "DUP1", "POP", "CALLER", "ADD", "SWAP1", "PUSH [tag] 7", "PUSHSIZE", "SUB"]
    splits = ["GAS", "LOG0", "ASSIGNIMMUTABLE 5", "CALLDATACOPY"]
    segs = [()] + [(x,) for x in small[:7]] + list(itertools.product(small[:7], repeat=2))
    one = [" ".join(pre + (sp,) + post) for sp in splits for pre in segs for post in segs]
    two = [" ".join((x, s1, y, s2, z)) for s1 in splits for s2 in splits for x in small for y in small for z in small]
    out = []
    for t in one[::stride1] + two[::stride2]:
        try:
            if E.needed_depth([BC._tok2(x) for x in BC.tokens_of_text(t)])[0] <= 6:
                out.append(t)
        except Exception:                         # noqa
            pass
    return list(dict.fromkeys(out))


def forves_job(j):
    _, ta, mode = j
    recs = []
    before = dict(_IDEAL)
    crit = "gas" if gasol.params().criteria == "gas" else "size"
    cands = forves_mutants(ta) if mode == "mutate" else []
    if mode == "optimize":
        blocks = gasol.parse_plain(ta)
        if len(blocks) == 1:
            res = gasol.optimize_one(blocks[0])
            cands = [(res["out_block"].to_plain(), "optimized")]
    for tb, op in cands:
        try:
            a = gasol.parse_plain(ta)
            b = gasol.parse_plain(tb)
        except Exception:                         # noqa
            continue
        if len(a) != 1 or len(b) != 1:
            continue
        ans, rendered = forves_adapter(a[0].to_plain(), b[0].to_plain(), crit)
        rec = {"kind": "forves:" + op, "a": ta, "b": tb, "adapter": ans, "rendered": rendered}
        if ans == "true":
            r = check_equiv(gasol.instrs_of(a[0]), gasol.instrs_of(b[0]), 8000, kind="c05")
            rec["verdict"] = {"equal": "true-equivalent", "different": "UNFAITHFUL", "unknown": "true-undecided",
                              "unsupported": "true-unsupported", "spurious": "true-undecided",
                              "harness-error": "harness-error"}[r.verdict]
            if r.verdict == "different":
                rec["observed"] = r.replay
                rec["state"] = r.state
                rec["why"] = r.reason
        elif ans.startswith("raised"):
            rec["verdict"] = "adapter-raised"
        else:
            rec["verdict"] = "adapter-" + ans
        recs.append(rec)
    return {"recs": recs, "ideal": {"pairs": _IDEAL["pairs"] - before["pairs"], "undecided": _IDEAL["undecided"] - before["undecided"]}}


def job(j):
    kind = j[0]
    if kind == "forves":
        return forves_job(j)
    recs = []
    if kind == "reflexive":
        text = j[1]
        eq, reason, a, b = compare(text, text)
        recs.append({"kind": "reflexive", "a": text, "verdict": "ok" if eq is True else ("raised" if eq == "raised" else "not-reflexive"),
                     "why": reason})
        return {"recs": recs}
    if kind == "pair":
        _, ta, tb, op = j
        pairs = [(ta, tb, op)]
    else:
        pairs = [(j[1], m, op) for m, op in mutants(j[1])]
    for ta, tb, op in pairs:
        eq, reason, a, b = compare(ta, tb)
        rec = {"kind": op, "a": ta, "b": tb, "checker": eq, "why": reason}
        if eq is True:
            r = check_equiv(gasol.instrs_of(a), gasol.instrs_of(b), 8000, kind="c05")
            rec["verdict"] = {"equal": "accepted-equivalent", "different": "UNSOUND", "unknown": "accepted-undecided",
                              "unsupported": "accepted-unsupported", "spurious": "accepted-undecided",
                              "harness-error": "harness-error"}[r.verdict]
            if r.verdict == "different":
                rec["observed"] = r.replay
                rec["state"] = r.state
                rec["why"] = r.reason
        elif eq == "raised":
            rec["verdict"] = "checker-raised"
        else:
            rec["verdict"] = "rejected"
        recs.append(rec)
    return {"recs": recs}


def main():
    tier = report.tier()
    rep = report.Report("C05", "translation_validation")
    ops, pairs = F.rule_opcodes()
    base = []
    base += F.consuming_singles(ops + ["SMOD", "SAR", "BYTE", "SIGNEXTEND", "MOD"])
    base += F.f_rule_singles(ops + ["SMOD", "SAR", "MOD"], contexts=("stack",))[:: (3 if tier == "quick" else 1)]
    base += F.f_rule_chains(ops, depth=2)
    base += F.f_mem((2,), deltas=[0, 1, 32])[:: (2 if tier == "quick" else 1)]
    base += F.f_exh(2 if tier == "quick" else 3)
    base += F.f_rule_singles(ops, contexts=("both", "bothstore"))[:: (12 if tier == "quick" else 1)]
    base += F.f_rule_pairs(sorted(set(pairs) | {(b, a) for a, b in pairs}), consts=[0, 1], contexts=("both",))[:: (24 if tier == "quick" else 2)]
    base = F.f_two_segments() + base           # first: every option set takes a stride of the list
    if tier == "thorough":
        both = sorted(set(pairs) | {(b, a) for a, b in pairs})
        base += F.f_rule_pairs(both, consts=[0, 1, F.MASK], contexts=("stack",))
        base += F.f_mem((3,), deltas=[0, 16], ops=("MSTORE", "MLOAD", "MSTORE8"))
    base = list(dict.fromkeys(base))
    ntwo = len(F.f_two_segments())
    mem_pairs = F.f_mem_mutant_pairs(deltas=(0, 1, 32), length=2)
    mem_pairs += F.f_mem_move_pairs(deltas=(0, 8, 40), length=3, n_stores=(1, 2))
    # a store moved across a hash of an overlapping / disjoint range (the checker's KECCAK branch of the dependency comparison)
    mem_pairs += F.f_mem_move_pairs(deltas=(0, 8, 40), length=3, load_ops=("KECCAK256",), n_stores=(1, 2))[:: (4 if tier == "quick" else 1)]
    if tier == "thorough":
        mem_pairs += F.f_mem_mutant_pairs(deltas=(0, 16), ops=("MSTORE", "MSTORE8", "SSTORE"), length=3)
        mem_pairs += F.f_mem_move_pairs(deltas=(0, 8, 16, 40), length=4)
    else:
        mem_pairs += F.f_mem_move_pairs(deltas=(0, 8, 16, 40), length=4)[::8]
    tasks = []
    fbases = forves_bases(61, 97) if tier == "quick" else forves_bases(11, 23)
    osets = [gasol.optset("none", "gas", True, True, "greedy"), gasol.optset("none", "gas", False, True, "greedy"),
             gasol.optset("storage", "gas", True, True, "greedy"), gasol.optset("partition", "size", True, False, "greedy")]
    for k, o in enumerate(osets):
        g = 1 if k == 0 else (4 if tier == "quick" else 2)
        jobs = [("mutate", t) for i, t in enumerate(base) if i % g == 0 or i < ntwo]
        jobs += [("pair", a, b, op) for i, (a, b, op) in enumerate(mem_pairs) if i % g == 0]
        jobs += [("reflexive", t) for i, t in enumerate(base) if i % g == 0]
        if k in (0, 3):
            jobs += [("forves", t, "mutate") for t in fbases]
            jobs += [("forves", t, "mutate") for i, t in enumerate(base) if i % (48 if tier == "quick" else 8) == 0]
            jobs += [("forves", t, "optimize") for i, t in enumerate(base + fbases) if i % (8 if tier == "quick" else 2) == 0]
        tasks.append((o, jobs, 100))
    results, stats = pool.run(tasks, "checks.c05:job", job_timeout=300)
    programs = accepted = 0
    forves = {"pairs": 0, "answered_true": 0, "verdicts": {}, "by_mutation": {}, "rendered_pairs_decided": 0, "rendered_undecided": 0}
    verdicts = {}
    by_op = {}
    samples = []
    for o, j, r in results:
        on = gasol.optset_name(o)
        if "recs" not in r:
            verdicts["harness"] = verdicts.get("harness", 0) + 1
            continue
        if "ideal" in r:
            forves["rendered_pairs_decided"] += r["ideal"]["pairs"]
            forves["rendered_undecided"] += r["ideal"]["undecided"]
        for rec in r["recs"]:
            programs += 1
            v = rec["verdict"]
            if rec["kind"].startswith("forves:"):
                forves["pairs"] += 1
                forves["verdicts"][v] = forves["verdicts"].get(v, 0) + 1
                forves["by_mutation"].setdefault(rec["kind"][7:], {}).setdefault(v, 0)
                forves["by_mutation"][rec["kind"][7:]][v] += 1
                if rec["adapter"] == "true":
                    forves["answered_true"] += 1
                    accepted += 1
                if v == "UNFAITHFUL":
                    rep.violation("forves:%s:%s => %s" % (rec["kind"][7:], rec["a"], rec["b"]),
                                  "the external-checker adapter answers 'true' (with a checker that decides the rendered pairs exactly) but a state "
                                  "separates the blocks: %s; %s; rendered as %r [options %s]" % (rec.get("why"), rec.get("observed"), rec.get("rendered"), on),
                                  {"options": o, "a": rec["a"], "b": rec["b"], "state": rec.get("state"), "observed": rec.get("observed"),
                                   "rendered": rec.get("rendered")})
                if v == "harness-error":
                    rep.harness_error("model did not replay: %s vs %s" % (rec["a"], rec["b"]))
                continue
            verdicts[v] = verdicts.get(v, 0) + 1
            by_op.setdefault(rec["kind"], {}).setdefault(v, 0)
            by_op[rec["kind"]][v] += 1
            if v.startswith("accepted") or v == "UNSOUND":
                accepted += 1
                if len(samples) < 8 and v == "accepted-equivalent":
                    samples.append({"a": rec["a"], "b": rec["b"], "mutation": rec["kind"], "checker": "equal", "smt": "equivalent"})
            if v == "UNSOUND":
                rep.violation("unsound:%s:%s => %s" % (rec["kind"], rec["a"], rec["b"]),
                              "checker answers equal but a state separates the blocks: %s; %s [options %s]" % (rec["why"], rec.get("observed"), on),
                              {"options": o, "a": rec["a"], "b": rec["b"], "state": rec.get("state"), "observed": rec.get("observed")})
            if v == "not-reflexive":
                rep.violation("reflexive:" + rec["a"], "checker does not accept a block compared with itself: %s [options %s]" % (rec["why"], on),
                              {"options": o, "a": rec["a"]})
            if v in ("raised", "checker-raised"):
                rep.violation("raises:%s%s" % (rec["a"], (" => " + rec["b"]) if rec.get("b") else ""),
                              "checker raises on well-formed input: %s [options %s]" % (rec["why"], on),
                              {"options": o, "a": rec["a"], "b": rec.get("b")})
            if v == "harness-error":
                rep.harness_error("model did not replay: %s vs %s" % (rec["a"], rec["b"]))
    rep.coverage = {
        "programs": programs, "disagreements_checked": accepted, "verdicts": verdicts, "by_mutation": by_op,
        "samples": samples or [{"note": "none"}], "solver": stats.as_dict(), "base_blocks": len(base),
        "functions": ["gasol_asm.compare_asm_block_asm_format", "verification.sfs_verify.verify_block_from_list_of_sfs",
                      "verification.forves_verification.compare_forves", "verification.forves_verification.forves_format"],
        "forves_adapter": forves,
        "stubs": ["bin/forves-checker is absent: verification.forves_verification.run_command is rebound to an ideal checker that reads the "
                  "file the adapter wrote with an independent reader of the documented format and answers true exactly when E1 proves "
                  "every rendered pair equivalent; paths.project_path points to a scratch directory holding an empty bin/forves-checker"],
        "explanation": "programs = (B, B') pairs and reflexive comparisons given to the real checker; "
                       "disagreements_checked = pairs the checker accepted as equal, each decided by the SMT query",
        "bounds": "mutation operators: operand swap, signed/unsigned and shift-kind substitution, constant +-1 / bit flips, "
                  "dropped/duplicated/transposed stores, DUP/SWAP index +-1 on the stated families; forves adapter: the same "
                  "operators plus instruction moved across a split instruction, split instruction replaced, ASSIGNIMMUTABLE operand "
                  "changed, and the pipeline's own optimized block, on blocks with 0-2 split instructions; the real forves binary "
                  "is not available, so what is decided is the adapter (rendering, segment pairing, answer mapping), not forves",
    }
    rep.assumptions = ["offsets/lengths < 2^32", "ADDRESS/ORIGIN/CALLER/COINBASE < 2^160"]
    sys.exit(rep.finish())


if __name__ == "__main__":
    main()
