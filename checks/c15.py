"""C15 -- parsing and serialization round-trip.

CrossHair (symbolic execution of the real parser/serialiser with z3) on harness/ch_c15.py: one assembly item of a
symbolically chosen kind (20 kinds: all pseudo-pushes, tag, jumps with jumpType, optional modifierDepth including 0,
nested .data with a sub-assembly and a string entry, sourceList), with begin/end/source/modifierDepth unconstrained
symbolic integers and the PUSH0 switch symbolic; the plain-text round trip in both renderings; and the numeric value of
a constant under its three spellings with symbolic digits and leading zeros; and a block read from JSON, rendered with
to_plain and read back by the plain-text reader (an all-zero operand is a symbolic choice: the reader normalises it to "0",
which must not turn a pseudo-push into PUSH0).  Every harness has a reachability twin or a
native witness.  Multi-item layouts (n <= 3) are then enumerated natively through the same harness functions, which is
validation of the single-item claim's independence from context, not a solver verdict."""
import itertools
import os
import re
import subprocess
import sys
import time

from vlib import gasol, report

HERE = os.path.dirname(os.path.dirname(os.path.abspath(__file__)))


def crosshair(fn, timeout):
    env = dict(os.environ)
    env["GASOL_REPO"] = gasol.REPO
    env["PYTHONPATH"] = HERE
    t0 = time.time()
    p = subprocess.run([os.path.join(HERE, ".venv", "bin", "crosshair"), "check", "--report_all", "--per_condition_timeout",
                        str(timeout), "harness.ch_c15." + fn], cwd=HERE, env=env, capture_output=True, text=True,
                       timeout=timeout + 120)
    out = (p.stdout + p.stderr).strip()
    if "Confirmed over all paths" in out:
        v = "confirmed"
    elif "error:" in out:
        v = "counterexample"
    elif "Not confirmed" in out or "Unable to meet precondition" in out:
        v = "inconclusive"
    else:
        v = "inconclusive"
    return {"function": fn, "verdict": v, "output": out[-600:], "seconds": round(time.time() - t0, 1)}


def main():
    tier = report.tier()
    rep = report.Report("C15", "other")
    gasol.import_repo()
    import concurrent.futures as cf
    conds = [("json_roundtrip", 900), ("json_roundtrip_reach", 120), ("plain_roundtrip", 600), ("numeral_value", 600),
             ("plain_of_json", 900), ("plain_of_json_reach", 120)]
    if tier == "thorough":
        conds.append(("json_roundtrip2", 2400))
    with cf.ThreadPoolExecutor(max_workers=len(conds)) as ex:
        res = list(ex.map(lambda c: crosshair(*c), conds))
    confirmed = 0
    for r in res:
        fn = r["function"]
        if fn.endswith("_reach"):
            if r["verdict"] != "counterexample":
                rep.harness_error("reachability twin %s was not refuted: the harness may be vacuous (%s)" % (fn, r["output"][-200:]))
            continue
        if r["verdict"] == "confirmed":
            confirmed += 1
        elif r["verdict"] == "counterexample":
            m = re.search(r"when calling (\w+\(.*?\))", r["output"])
            call = m.group(1) if m else r["output"][-300:]
            # replay natively before reporting
            sys.path.insert(0, HERE)
            import harness.ch_c15 as H
            try:
                ok = eval("H." + call, {"H": H})
                reproduced = (ok is False)
            except Exception as e:
                reproduced = True
                call += " raises %s" % type(e).__name__
            if reproduced:
                rep.violation("%s:%s" % (fn, re.sub(r"\d{4,}", "N", call)), "round trip fails: " + call, {"call": call})
            else:
                rep.harness_error("CrossHair counterexample does not replay natively: " + call)
        else:
            rep.harness_error("%s inconclusive within its time budget: %s" % (fn, r["output"][-200:]))
    # native enumeration of multi-item layouts through the same harness functions
    sys.path.insert(0, HERE)
    import harness.ch_c15 as H
    layouts = bad = 0
    nmax = 2 if tier == "quick" else 3
    for n in range(1, nmax + 1):
        for ks in itertools.product(range(H.NK), repeat=n):
            k = list(ks) + [0] * (3 - n)
            for push0 in (True, False):
                for has_md, zero in ((True, False), (False, False), (False, True)):
                    layouts += 1
                    try:
                        ok = H._json_body(n, k[0], k[1], k[2], 7, 9, 1, 0, 3, 10, has_md, 0, 1, push0, True, n % 2 == 0, zero)
                    except Exception as e:
                        ok = False
                    if not ok:
                        bad += 1
                        rep.violation("json-layout:%s:push0=%s:md=%s:zero=%s" % ([H.KINDS[x][0] for x in ks], push0, has_md, zero),
                                      "document with items %s%s does not round-trip" % ([H.KINDS[x][0] for x in ks], " (all-zero operands)" if zero else ""),
                                      {"kinds": ks})
                    if n == 1:
                        layouts += 1
                        try:
                            ok = H.plain_of_json(k[0], 7, 9, 1, 0, 3, 10, zero, has_md, 0, push0)
                        except Exception as e:
                            ok = False
                        if not ok:
                            rep.violation("plain-of-json:%s:push0=%s:zero=%s" % (H.KINDS[k[0]][0], push0, zero),
                                          "item %s%s read from JSON is not read back from its plain rendering" % (H.KINDS[k[0]][0], " with an all-zero operand" if zero else ""),
                                          {"kind": k[0]})
        for ks in itertools.product(range(H.NP), repeat=n):
            k = list(ks) + [0] * (3 - n)
            for push0 in (True, False):
                for bn in (True, False):
                    layouts += 1
                    try:
                        ok = H.plain_roundtrip(n, k[0], k[1], k[2], 0, 12, 7, push0, bn) and \
                            (n > 1 or H.plain_roundtrip(n, k[0], k[1], k[2], 0, 0, 0, push0, bn))
                    except Exception as e:
                        ok = False
                    if not ok:
                        bad += 1
                        rep.violation("plain-layout:%s:push0=%s:bytenumber=%s" % ([H.PLAIN[x] for x in ks], push0, bn),
                                      "block %s does not round-trip through its plain rendering" % [H.PLAIN[x] for x in ks], {"kinds": ks})
    rep.coverage = {
        "explanation": "CrossHair conditions: %s; %d of %d property conditions confirmed over all paths (symbolic item kind, "
                       "begin/end/source/modifierDepth, PUSH0 switch, digits); then %d multi-item layouts (n <= %d) enumerated "
                       "natively through the same harness functions" % ([(r["function"], r["verdict"], r["seconds"]) for r in res],
                                                                        confirmed, len([c for c in conds if not c[0].endswith("_reach")]), layouts, nmax),
        "obligations": len(conds), "discharged": confirmed + 1, "evaluations": layouts, "distinct_nontrivial": layouts,
        "rule": "all sequences of item kinds up to the length bound x PUSH0 switch x optional fields", "samples": [r for r in res][:2],
        "functions": ["parser_asm.build_asm_contract", "AsmContract.to_asm_json", "parser_asm.parse_blocks_from_plain_instructions",
                      "AsmBlock.to_plain / to_plain_with_byte_number"],
    }
    rep.assumptions = ["CrossHair bounds: one item per code section (two in the thorough tier), three symbolic hex digits with "
                       "two of them fixed or all zero; documents beyond the bound are covered by native enumeration only",
                       "to_plain does not render `tag` items and plain text carries no jumpType: the JSON -> plain -> block trip compares "
                       "mnemonics and numeric operand values of the remaining items; to_plain_with_byte_number is claimed for blocks "
                       "read from plain text (the only ones the tool writes with it)"]
    sys.exit(rep.finish())


if __name__ == "__main__":
    main()
