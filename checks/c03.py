"""C03 -- simplification rules and constant folding are identities on 256-bit words.

Layer 1 (folding kernel): the *source* of evaluate_expression / evaluate_expression_ter is executed symbolically from
its AST (vlib.pysym) with both operands symbolic 256-bit words; per path one z3 query asks for operands on which the
returned value differs from the EVM operator (E1's operator semantics), or on which the code raises.
Layer 2 (local rules): apply_transform is executed the same way on an instruction dict whose operand *kinds* are
enumerated (variable / repeated variable / constant) and whose constants and variable values are symbolic.
Layer 3 (block level): for the rule families the specification with rules and the one without both denote the block
(C02's query, E2 vs E1), and in -size mode the rules never enlarge the specification."""
import ast
import os
import sys
import time

import z3

from vlib import families as F
from vlib import gasol, pool, report
from vlib import evm_smt as E
from vlib import pysym as P
from vlib import blockcheck as BC
from vlib import speccheck as SP
from vlib.smt import Stats, solve
from vlib.spec_conc import apply_op
from vlib.evm_conc import HashOracle

STATS = Stats()
REPO = gasol.REPO


def load_ast():
    mods = {}
    for rel in ("sfs_generator/gasol_optimization.py", "sfs_generator/utils.py"):
        with open(os.path.join(REPO, rel)) as f:
            mods[rel] = ast.parse(f.read())
    merged = ast.Module(body=mods["sfs_generator/utils.py"].body + mods["sfs_generator/gasol_optimization.py"].body,
                        type_ignores=[])
    return merged, mods["sfs_generator/gasol_optimization.py"]


def extract_funct_lists(tree):
    """the operator strings compute_binary / compute_ternary fold (from the `funct in [...]` tests of the source)"""
    out = {}
    for fn in ast.walk(tree):
        if isinstance(fn, ast.FunctionDef) and fn.name in ("compute_binary", "compute_ternary"):
            best = []
            for n in ast.walk(fn):
                if isinstance(n, ast.Compare) and len(n.ops) == 1 and isinstance(n.ops[0], ast.In) and \
                        isinstance(n.comparators[0], ast.List):
                    vals = [c.value for c in n.comparators[0].elts if isinstance(c, ast.Constant)]
                    if len(vals) > len(best):
                        best = vals
            out[fn.name] = best
    return out


def word(name):
    return z3.BitVec(name, 256)


def widen(t):
    return z3.ZeroExt(P.WIDTH - 256, t)


def native_globals(size_flag):
    """module-level values the rule code reads, taken from the real module after one native front-end run"""
    import sfs_generator.gasol_optimization as G
    b = gasol.parse_plain("PUSH 1 DUP2 ADD")[0]
    gasol.sfs_of(b)
    g = {}
    for k, v in vars(G).items():
        if k.startswith("__"):
            continue
        if isinstance(v, (int, bool, str)) or (isinstance(v, list) and all(isinstance(x, (int, str)) for x in v)):
            g[k] = v
    g["size_flag"] = size_flag
    return g


def to_int(model, t):
    return model.eval(t, model_completion=True).as_long()


def evm_ref(op, args):
    ctx = E.Ctx(abstract=False)
    ops = E.Ops(ctx)
    if len(args) == 3:
        # ADDMOD/MULMOD are defined over unbounded integers: (a+b) mod n, (a*b) mod n, 0 for n = 0.  The reference is
        # written at the model width (exact: no wrap below 2^513) so that both sides share one theory
        a, b, n = [widen(x) for x in args]
        t = a + b if op == "ADDMOD" else a * b
        return WideRef(z3.If(n == P.bvc(0), P.bvc(0), z3.URem(t, n))), ctx
    if op == "ISZERO":
        return E.b2w(args[0] == E.BV(0)), ctx
    if op == "NOT":
        return ~args[0], ctx
    return ops.binop(op, args[0], args[1]), ctx


class WideRef:
    def __init__(self, t):
        self.t = t


def conc_ref(op, vals):
    return apply_op(op, vals, HashOracle(0))


# ------------------------------------------------------------------------------------------------ layer 1

def layer1_job(j):
    kind, funct = j
    gasol.import_repo()
    import sfs_generator.gasol_optimization as G
    merged, _ = load_ast()
    out = {"obligations": 0, "discharged": 0, "bad": [], "inconclusive": [], "paths": 0, "job": j}
    names = ["a", "b", "c"][: 2 if kind == "binary" else 3]
    ws = [word(n) for n in names]
    args = [P.SymInt(widen(w)) for w in ws]
    fname = "evaluate_expression" if kind == "binary" else "evaluate_expression_ter"
    op = G.funct_to_opcode(funct)
    ex = P.Executor(merged, {}, loop_bound=40)
    try:
        paths = ex.run(fname, [funct] + args)
    except P.Unmodelled as e:
        out["inconclusive"].append({"funct": funct, "why": "unmodelled: %s" % e})
        return out
    ref, rctx = evm_ref(op, ws)
    native = getattr(G, fname)
    for pc, outcome, _ in paths:
        out["paths"] += 1
        out["obligations"] += 1
        if outcome[0] == "raise":
            verdict, model = solve(pc, 20000, STATS, "c03:l1:raise")
            if verdict == "sat":
                vals = [to_int(model, w) for w in ws]
                try:
                    native(funct, *vals)
                    out["inconclusive"].append({"funct": funct, "why": "modelled raise did not replay", "operands": vals})
                except Exception as e:
                    out["bad"].append({"key": "fold:%s:raises:%s" % (funct, type(e).__name__), "operands": vals,
                                       "what": "%s(%r, %s) raises %s" % (fname, funct, ", ".join(map(hex, vals)), type(e).__name__)})
            elif verdict == "unsat":
                out["discharged"] += 1
            else:
                out["inconclusive"].append({"funct": funct, "why": "solver " + verdict})
            continue
        v = outcome[1]
        if isinstance(v, tuple) and v and v[0] == "modpow":
            # pow(val0, val1, 2**256) *is* the definition of EXP; check that these are the arguments
            ok = isinstance(v[1], P.SymInt) and isinstance(v[2], P.SymInt) and v[1].t.eq(args[0].t) and v[2].t.eq(args[1].t) \
                and v[3] == 1 << 256 and op == "EXP"
            if ok:
                out["discharged"] += 1
            else:
                out["bad"].append({"key": "fold:%s:modpow-arguments" % funct, "operands": [],
                                   "what": "pow() is not applied to (val0, val1, 2**256)"})
            continue
        if v is None:
            out["bad"].append({"key": "fold:%s:returns-None" % funct, "operands": [],
                               "what": "%s(%r, ...) returns None on some path" % (fname, funct)})
            continue
        try:
            vt = P.lift(v)
        except P.Unmodelled as e:
            out["inconclusive"].append({"funct": funct, "why": str(e)})
            continue
        goal = pc + rctx.side + [vt != (ref.t if isinstance(ref, WideRef) else widen(ref))]
        verdict, model = solve(goal, 30000, STATS, "c03:l1:value")
        if verdict == "unsat":
            out["discharged"] += 1
        elif verdict == "sat":
            vals = [to_int(model, w) for w in ws]
            got = native(funct, *vals)
            want = conc_ref(op, vals)
            if got != want:
                out["bad"].append({"key": "fold:%s:value" % funct, "operands": vals,
                                   "what": "%s(%r, %s) = %r but %s gives %#x" % (fname, funct, ", ".join(map(hex, vals)), got, op, want)})
            else:
                out["inconclusive"].append({"funct": funct, "why": "model did not replay natively", "operands": vals})
        else:
            out["inconclusive"].append({"funct": funct, "why": "solver " + verdict})
    # the width obligations of the integer model: violated = an intermediate integer can be astronomically large
    for pc, formula, what in ex.obligations:
        out["obligations"] += 1
        verdict, model = solve(pc + [z3.Not(formula)], 20000, STATS, "c03:l1:width")
        if verdict == "unsat":
            out["discharged"] += 1
        elif verdict == "sat":
            vals = [to_int(model, w) for w in ws]
            out["bad"].append({"key": "fold:%s:unbounded-integer" % funct, "operands": vals,
                               "what": "%s: %s is violated for operands %s" % (fname, what, ", ".join(map(hex, vals)))})
        else:
            out["inconclusive"].append({"funct": funct, "why": "solver %s (width)" % verdict})
    out["stats"] = STATS.as_dict()
    STATS.reset()
    return out


# ------------------------------------------------------------------------------------------------ layer 2

PATTERNS2 = [("X", "c"), ("c", "X"), ("X", "X"), ("X", "Y"), ("c", "d")]
PATTERNS1 = [("X",), ("c",)]


def layer2_job(j):
    opcode, pattern, size_flag = j
    gasol.import_repo()
    import sfs_generator.gasol_optimization as G
    merged, _ = load_ast()
    out = {"obligations": 0, "discharged": 0, "bad": [], "inconclusive": [], "paths": 0, "fired": 0, "job": j}
    g = native_globals(size_flag)
    vals = {"X": word("x"), "Y": word("y"), "c": word("c"), "d": word("d")}
    operands = []
    for k in pattern:
        if k in ("X", "Y"):
            operands.append("s(%d)" % (1 if k == "X" else 2))
        else:
            operands.append(P.SymInt(widen(vals[k])))
    instr = {"id": opcode + "_0", "disasm": opcode, "inpt_sk": operands, "outpt_sk": ["s(9)"], "commutative": False}
    ex = P.Executor(merged, g, loop_bound=40)
    genv = {k: g[k] for k in ("discount_op", "saved_push", "gas_saved_op", "rule") if k in g}
    try:
        paths = ex.run("apply_transform", [instr], genv)
    except P.Unmodelled as e:
        out["inconclusive"].append({"why": "unmodelled: %s" % e})
        return out

    def value_of(v):
        if isinstance(v, str):
            return widen(vals["X"] if v == "s(1)" else vals["Y"])
        return P.lift(v)

    wargs = [vals[k] for k in pattern]
    ref, rctx = evm_ref(opcode, wargs)
    for pc, outcome, genv_after in paths:
        out["paths"] += 1
        if outcome[0] == "raise":
            out["obligations"] += 1
            verdict, model = solve(pc, 10000, STATS, "c03:l2:raise")
            if verdict == "sat":
                out["bad"].append({"key": "rule:%s%r:raises:%s" % (opcode, pattern, outcome[1]),
                                   "operands": {k: to_int(model, vals[k]) for k in set(pattern)},
                                   "what": "apply_transform raises %s on %s%r" % (outcome[1], opcode, pattern)})
            elif verdict == "unsat":
                out["discharged"] += 1
            continue
        v = outcome[1]
        if isinstance(v, int) and not isinstance(v, bool) and v == -1:
            continue                        # rule does not fire on this path
        if v is None:
            continue                        # opcode without a rule
        out["fired"] += 1
        out["obligations"] += 1
        try:
            vt = value_of(v)
        except P.Unmodelled as e:
            out["inconclusive"].append({"why": str(e)})
            continue
        rule = genv_after.get("rule", "?")
        goal = pc + rctx.side + [vt != widen(ref)]
        verdict, model = solve(goal, 30000, STATS, "c03:l2:value")
        if verdict == "unsat":
            out["discharged"] += 1
        elif verdict == "sat":
            asg = {k: to_int(model, vals[k]) for k in sorted(set(pattern))}
            # native replay: the real function on the concrete instruction
            conc_ops = [("s(1)" if k == "X" else "s(2)") if k in ("X", "Y") else asg[k] for k in pattern]
            try:
                G.size_flag = size_flag
                G.int_not0 = g.get("int_not0", [])
                got = G.apply_transform({"id": opcode + "_0", "disasm": opcode, "inpt_sk": list(conc_ops),
                                         "outpt_sk": ["s(9)"], "commutative": False})
            except Exception as e:
                got = "raises %s" % type(e).__name__
            want = conc_ref(opcode, [asg[k] for k in pattern])
            gotv = asg["X"] if got == "s(1)" else asg.get("Y") if got == "s(2)" else got
            if got == -1 or gotv == want:
                out["inconclusive"].append({"why": "model did not replay natively", "operands": asg, "rule": rule})
            else:
                out["bad"].append({"key": "rule:%s%r:%s" % (opcode, tuple(pattern), rule), "operands": asg,
                                   "what": "rule %s rewrites %s(%s) to %r but the value is %#x (operands %s)"
                                           % (rule, opcode, ",".join(pattern), got, want, {k: hex(v) for k, v in asg.items()})})
        else:
            out["inconclusive"].append({"why": "solver " + verdict, "rule": rule})
    for pc, formula, what in ex.obligations:
        out["obligations"] += 1
        verdict, model = solve(pc + [z3.Not(formula)], 10000, STATS, "c03:l2:width")
        if verdict == "unsat":
            out["discharged"] += 1
        elif verdict == "sat":
            out["bad"].append({"key": "rule:%s%r:unbounded-integer" % (opcode, tuple(pattern)),
                               "operands": {k: to_int(model, vals[k]) for k in set(pattern)}, "what": what})
    out["stats"] = STATS.as_dict()
    STATS.reset()
    return out


# ------------------------------------------------------------------------------------------------ layer 3

def spec_bytes(spec):
    """independent size of the cheapest straight realisation: bytes of the uninterpreted instructions (each once)"""
    total = 0
    for ins in spec["user_instrs"]:
        d = ins["disasm"]
        if d == "PUSH":
            v = int(ins["value"][0])
            total += 1 + max(1, (v.bit_length() + 7) // 8)
        elif d == "PUSH0":
            total += 1
        elif d in ("PUSH [tag]", "PUSH data", "PUSH [$]"):
            total += 3
        elif d in ("PUSH #[$]", "PUSHSIZE"):
            total += 5
        elif d in ("PUSHLIB", "PUSHDEPLOYADDRESS"):
            total += 21
        elif d == "PUSHIMMUTABLE":
            total += 33
        else:
            total += 1
    return total


def block_bytes(instrs):
    total = 0
    for n, v in instrs:
        if n == "PUSH":
            x = int(v, 16)
            total += 1 if (x == 0 and gasol.params().push0) else 1 + max(1, (x.bit_length() + 7) // 8)
        elif n == "PUSH0":
            total += 1
        elif n in ("PUSH [tag]", "PUSH data", "PUSH [$]"):
            total += 3
        elif n in ("PUSH #[$]", "PUSHSIZE"):
            total += 5
        elif n in ("PUSHLIB", "PUSHDEPLOYADDRESS"):
            total += 21
        elif n == "PUSHIMMUTABLE":
            total += 33
        elif n == "tag":
            total += 0
        else:
            total += 1
    return total


def layer3_job(j):
    """runs in a worker whose option set has rules ON; the rules-off specification comes from the same front-end
    entry point with simplification disabled (ir_block.evm2rbr_compiler(simplification=False))"""
    text, max_rel = j
    from sfs_generator.utils import process_blocks_split
    import gasol_asm
    p = gasol.params()
    out = {"recs": [], "job": j}
    for b in gasol.parse_plain(text):
        try:
            p.rules_enabled = True
            sfs_on, subs = gasol.sfs_of(b)
            sfs_on = {k: dict(v) for k, v in sfs_on.items()}
            p.rules_enabled = False
            sfs_off, subs2 = gasol.sfs_of(b)
        except Exception as e:
            out["recs"].append({"verdict": "front-end-raised", "why": "%s: %s" % (type(e).__name__, e), "text": text})
            continue
        finally:
            p.rules_enabled = True
        parts = process_blocks_split(subs)
        for i, part in enumerate(parts):
            name = "%s_%d" % (b.block_name, i)
            if name not in sfs_on:
                continue
            instrs = [BC._tok2(t) for t in part]
            on = sfs_on[name]
            fired = list(on.get("rules", []))
            rec = {"sub": " ".join(part), "rules": fired[:4], "fired": bool(fired), "text": text}
            r = SP.check_spec(on, instrs, 8000, max_rel, kind="c03:l3")
            rec["verdict"], rec["why"] = r.verdict, r.reason
            if r.verdict == "different":
                rec["observed"] = r.detail.get("observed")
                rec["state"] = r.detail.get("state")
            if p.criteria == "size" and fired:
                # sound criterion: every realisation of the rules-on specification contains each of its uninterpreted
                # instructions at least once; if that lower bound already exceeds the bytes of the original sub-block,
                # the rules have enlarged the code
                s_on, s_orig = spec_bytes(on), block_bytes(instrs)
                rec["size_on"], rec["size_off"] = s_on, s_orig
                if s_on > s_orig:
                    rec["size_violation"] = True
            out["recs"].append(rec)
    return out


def job(j):
    tag = j[0]
    if tag == "l1":
        return layer1_job(j[1:])
    if tag == "l2":
        return layer2_job(j[1:])
    if tag == "l2b":
        return layer2b_job(j[1:])
    return layer3_job(j[1:])


# ------------------------------------------------------------------------------------------------ main

def main():
    tier = report.tier()
    rep = report.Report("C03", "translation_validation")
    gasol.import_repo()
    merged, gtree = load_ast()
    lists = extract_funct_lists(gtree)
    ops, pairs = F.rule_opcodes()
    # layer 1 + 2: no GASOL option set needed except size_flag, which is a harness parameter
    l1 = [("binary", f) for f in lists.get("compute_binary", [])] + [("ternary", f) for f in lists.get("compute_ternary", [])]
    rule_ops = [o for o in ops if o in F.BINARY or o in ("ISZERO", "NOT")]
    l2 = []
    for o in rule_ops:
        for pat in (PATTERNS2 if F._arity(o) == 2 else PATTERNS1):
            for sf in (False, True):
                l2.append((o, pat, sf))
    stats = Stats()
    obligations = discharged = paths = fired = 0
    inconclusive = []
    # layer 3
    both = sorted(set(pairs) | {(b, a) for a, b in pairs})
    texts = F.f_rule_singles(ops, contexts=("stack",) if tier == "quick" else ("stack", "consumed", "twice"))
    texts += F.consuming_singles(ops + ["SMOD", "SAR", "BYTE", "SIGNEXTEND"])
    texts += F.f_rule_singles(ops, contexts=("both", "bothstore"))[:: (14 if tier == "quick" else 1)]
    texts += F.f_rule_singles(["SAR", "SMOD", "BYTE", "SIGNEXTEND", "ADDMOD", "MULMOD", "MOD"], contexts=("stack",))[:: (8 if tier == "quick" else 1)]
    texts += F.f_rule_chains(ops, depth=3 if tier == "quick" else 4)
    texts += F.f_rule_pairs(both, consts=[0, 1, F.MASK] if tier == "quick" else F.K3, contexts=("stack",),
                            chains=(0,) if tier == "quick" else (0, 1))
    if tier == "thorough":
        allpairs = [(a, b) for a in rule_ops for b in rule_ops]
        texts += F.f_rule_pairs(allpairs, consts=[0, 1, F.MASK], contexts=("stack",))[::3]
        texts += F.f_rule_siblings(ops, consts=(0, 1))
        texts += F.f_rule_triples(both)
        texts += F.f_rule_existing()
        texts += F.f_exh(3)
    else:
        texts += F.f_exh(2)
        texts += F.f_rule_existing()[::48]
        texts += F.f_rule_siblings(ops, consts=(0, 1))[::4]
        texts += F.f_rule_triples(both)[::4]
    texts = list(dict.fromkeys(texts))
    max_rel = 6
    tasks = []
    for k, crit in enumerate(("gas", "size", "length")):
        o = gasol.optset("none", crit, True, True, "greedy")
        g = 1 if crit in ("gas", "size") or tier == "thorough" else 3
        tasks.append((o, [("l3", t, max_rel) for i, t in enumerate(texts) if i % g == 0], 800))
    # one pool for all three layers; the kernel jobs are few but long, so each is its own unit and starts first
    slow_first = sorted(l2, key=lambda x: 0 if (x[0] == "NOT" and x[2]) else 1)
    l2b = context_skeletons(both if tier == "quick" else [(a, b) for a in ops for b in ops], tier, reader_pairs=both)
    readers = [x for x in l2b if len(x) > 3]
    l2b = [x for x in l2b if len(x) == 3]
    if tier == "quick":
        l2b = [x for x in l2b if not x[1] or x[2] == 0][::3] + readers[::3]
    else:
        l2b = l2b[::6] + readers
    tasks.insert(0, (gasol.optset(), [("l2b",) + x for x in l2b], 12))
    tasks.insert(0, (gasol.optset(), [("l1",) + x for x in l1] + [("l2",) + x for x in slow_first], 1))
    allres, st3 = pool.run(tasks, "checks.c03:job", job_timeout=600)
    r12 = [(o, j, r) for o, j, r in allres if j[0] in ("l1", "l2", "l2b")]
    r3 = [(o, j[1:], r) for o, j, r in allres if j[0] == "l3"]
    for _, j, r in r12:
        if "obligations" not in r:
            rep.harness_error("worker failed on %r: %s" % (j, str(r)[:400]))
            continue
        obligations += r["obligations"]
        discharged += r["discharged"]
        paths += r["paths"]
        fired += r.get("fired", 0)
        if r.get("stats"):
            stats.merge(r["stats"])
        for b in r["bad"]:
            rep.violation(b["key"], b["what"], b)
        for inc in r["inconclusive"]:
            inconclusive.append({"job": repr(j)[:200], "why": inc} if isinstance(inc, str) else {"job": repr(j)[:200], **inc})
    stats.merge(st3)
    programs = rule_fired = 0
    verdicts = {}
    samples = []
    for o, j, r in r3:
        on = gasol.optset_name(o)
        if "recs" not in r:
            verdicts["harness"] = verdicts.get("harness", 0) + 1
            continue
        for rec in r["recs"]:
            programs += 1
            v = rec["verdict"]
            verdicts[v] = verdicts.get(v, 0) + 1
            if rec.get("fired"):
                rule_fired += 1
                if len(samples) < 10 and v == "equal":
                    samples.append({"options": on, "block": rec["text"], "rules": rec["rules"], "verdict": v})
            if v == "different":
                rep.violation("block:" + rec["text"], "specification with rules differs from the block: %s; %s [options %s, rules %s]"
                              % (rec["why"], rec.get("observed"), on, rec.get("rules")),
                              {"options": o, "input": rec["text"], "core": rec["text"], "observed": rec.get("observed"),
                               "state": rec.get("state")})
            if rec.get("size_violation"):
                rep.violation("size:" + rec["text"], "in size mode every realisation of the specification with rules needs >= %d bytes, "
                              "the original sub-block has %d [rules %s]" % (rec["size_on"], rec["size_off"], rec.get("rules")),
                              {"options": o, "input": rec["text"], "core": rec["text"]})
            if v == "harness-error":
                rep.harness_error("model did not replay: %s (%s)" % (rec["text"], rec["why"]))
    rep.coverage = {
        "programs": programs, "disagreements_checked": rule_fired,
        "kernel": {"obligations": obligations, "discharged": discharged, "paths": paths, "rule_paths_fired": fired,
                   "folded_operators": lists, "rule_opcodes": rule_ops, "inconclusive": inconclusive[:40],
                   "inconclusive_count": len(inconclusive)},
        "block_level_verdicts": verdicts, "templates": len(texts), "samples": samples or [{"note": "none"}],
        "solver": stats.as_dict(),
        "functions": ["gasol_optimization.evaluate_expression (AST)", "gasol_optimization.evaluate_expression_ter (AST)",
                      "gasol_optimization.apply_transform (AST, incl. utils.all_integers/get_num_bytes_int)",
                      "gasol_optimization.apply_cond_transformation (AST) on instruction lists built from pair/chain skeletons with symbolic constants",
                      "front-end with rules on/off (native)"],
        "bounds": "operands: all of [0,2^256) (kernel, local rules); programs: F-rule singles/pairs/chains + F-exh (tier %s); "
                  "context rules: every (related-opcode pair) skeleton x wiring x entry instruction with symbolic constants" % tier,
        "explanation": "programs = sub-block specifications produced with rules enabled and decided against the block; "
                       "disagreements_checked = those on which at least one rule fired; kernel = symbolic execution of the "
                       "source AST, one solver query per path",
    }
    rep.assumptions = ["integer model of vlib.pysym: %d-bit signed bit-vectors with explicit no-overflow obligations" % P.WIDTH,
                       "pow(a,b,2**256) is taken as the definition of EXP", "offsets/lengths < 2^32 (block level)"]
    sys.exit(rep.finish())




# ------------------------------------------------------------------------------------------------ layer 2b (context rules)

WRAPPER_SRC = '''
def __verif_apply_cond(instr_index, user_def_instrs, tstack):
    r = apply_cond_transformation(user_def_instrs[instr_index], user_def_instrs, tstack)
    if r[0]:
        for b in r[1]:
            idx = user_def_instrs.index(b)
            user_def_instrs.pop(idx)
    return (r[0], user_def_instrs, tstack)
'''

OPCODE_HEX = {"ADD": "01", "MUL": "02", "SUB": "03", "DIV": "04", "SDIV": "05", "MOD": "06", "SMOD": "07", "EXP": "0a", "LT": "10",
              "GT": "11", "SLT": "12", "SGT": "13", "EQ": "14", "ISZERO": "15", "AND": "16", "OR": "17", "XOR": "18", "NOT": "19",
              "BYTE": "1a", "SHL": "1b", "SHR": "1c", "SAR": "1d", "ADDRESS": "30", "BALANCE": "31", "ORIGIN": "32", "CALLER": "33",
              "COINBASE": "41", "SELFBALANCE": "47"}


def build_instrs(expr):
    """expr: nested tuples (op, args...) with leaves 'X','Y','Z' (stack variables) or 'c','d' (symbolic constants).
    returns (instruction dicts, root variable, symbolic constants dict)"""
    instrs = []
    consts = {}
    counter = [0]
    cache = {}

    def go(e):
        if isinstance(e, str):
            if e in ("X", "Y", "Z"):
                return "s(%d)" % ("XYZ".index(e))
            if e not in consts:
                consts[e] = word("k_" + e)
            return P.SymInt(widen(consts[e]))
        key = repr(e)
        if key in cache:
            return cache[key]
        args = [go(a) for a in e[1:]]
        counter[0] += 1
        out = "s(%d)" % (10 + counter[0])
        instrs.append({"id": "%s_%d" % (e[0], counter[0]), "opcode": OPCODE_HEX.get(e[0], "00"), "disasm": e[0], "inpt_sk": args,
                       "outpt_sk": [out], "gas": 3, "commutative": e[0] in ("ADD", "MUL", "EQ", "AND", "OR", "XOR"), "storage": False,
                       "size": 1, "push": False})
        cache[key] = out
        return out

    root = go(expr)
    return instrs, root, consts, go


def value_model(instrs, consts_by_term):
    """{var: BV256 term} for the variables defined by an instruction list (inputs s(0..2) are free words)"""
    ctx = E.Ctx(abstract=False)
    ops = E.Ops(ctx)
    vals = {"s(%d)" % i: word("in%d" % i) for i in range(3)}
    defs = {}
    for ins in instrs:
        for o in ins.get("outpt_sk", []):
            defs[o] = ins

    def val(v, depth=0):
        if depth > 40:
            raise ValueError("cyclic definition")
        if isinstance(v, P.SymInt):
            return z3.Extract(255, 0, v.t), z3.And(v.t >= P.bvc(0), v.t < P.bvc(1 << 256))
        if isinstance(v, bool):
            raise ValueError("boolean operand")
        if isinstance(v, int):
            return E.BV(v), z3.BoolVal(0 <= v < (1 << 256))
        if not isinstance(v, str):
            raise ValueError("operand %r" % (v,))
        if v in vals:
            return vals[v], z3.BoolVal(True)
        if v not in defs:
            raise ValueError("dangling variable %s" % v)
        ins = defs[v]
        d = ins["disasm"]
        args = [val(a, depth + 1) for a in ins["inpt_sk"]]
        ok = z3.And(*[a[1] for a in args]) if args else z3.BoolVal(True)
        a = [x[0] for x in args]
        if d == "ISZERO":
            t = E.b2w(a[0] == E.BV(0))
        elif d == "NOT":
            t = ~a[0]
        elif d in E.NULLARY_ENV:
            t = ctx.const((d,))
        elif d == "SELFBALANCE":
            t = ctx.func("BALANCE!0", 1)(ctx.const(("ADDRESS",)))
        elif d == "BALANCE":
            t = ctx.func("BALANCE!0", 1)(a[0])
        elif len(a) == 2:
            t = ops.binop(d, a[0], a[1])
        else:
            raise ValueError("no semantics for %s" % d)
        vals[v] = t
        return t, ok

    return val, ctx


def layer2b_job(j):
    expr, inner_on_stack, entry = j[:3]
    reader = j[3] if len(j) > 3 else None         # one more instruction reading an inner term; only its result is on the stack
    gasol.import_repo()
    import sfs_generator.gasol_optimization as G
    merged, _ = load_ast()
    wrapper = ast.parse(WRAPPER_SRC).body
    tree = ast.Module(body=merged.body + wrapper, type_ignores=[])
    out = {"obligations": 0, "discharged": 0, "bad": [], "inconclusive": [], "paths": 0, "fired": 0, "job": repr(j)}
    g = native_globals(False)
    instrs, root, consts, go = build_instrs(expr)
    if entry >= len(instrs):
        return out
    tstack = [root] + (["s(11)"] if inner_on_stack and len(instrs) > 1 else []) + ["s(0)", "s(1)"]
    if reader is not None:
        tstack.insert(1, go(reader))
    tstack = [t for t in tstack if isinstance(t, str)]
    before_val, ctx0 = value_model(copy_instrs(instrs), consts)
    try:
        before = [before_val(v) for v in tstack]
    except ValueError as e:
        out["inconclusive"].append("before: %s" % e)
        return out
    ass = list(ctx0.assumptions)
    genv = {k: g[k] for k in ("discount_op", "saved_push", "gas_saved_op", "rule", "user_def_counter", "s_counter", "u_counter", "debug") if k in g}
    # the context rules run after the local rules have reached their fix-point: a list on which a local rule still
    # fires is not a reachable pre-state, so "no local rule fires" is assumed (the firing conditions come from the
    # symbolic execution of apply_transform itself)
    try:
        for ins in instrs:
            exl = P.Executor(tree, g, loop_bound=40, assumptions=ass)
            fires = []
            for pc_l, outc_l, _ in exl.run("apply_transform", [dict(ins, inpt_sk=list(ins["inpt_sk"]))], dict(genv)):
                v_l = outc_l[1] if outc_l[0] == "return" else None
                if outc_l[0] == "return" and not (v_l is None or (isinstance(v_l, int) and not isinstance(v_l, bool) and v_l == -1)):
                    fires.append(z3.And(*pc_l) if pc_l else z3.BoolVal(True))
            if fires:
                ass.append(z3.Not(z3.Or(*fires)))
    except P.Unmodelled as e:
        out["inconclusive"].append("precondition unmodelled: %s" % e)
        return out
    chk = z3.Solver()
    chk.set("timeout", 5000)
    chk.add(*ass)
    if str(chk.check()) == "unsat":
        out["preempted"] = True          # a local rule always rewrites this shape first
        return out
    ex = P.Executor(tree, g, loop_bound=40, assumptions=ass)
    genv.setdefault("user_def_counter", {})
    genv.setdefault("debug", False)
    try:
        paths = ex.run("__verif_apply_cond", [entry, instrs, tstack], genv)
    except P.Unmodelled as e:
        out["inconclusive"].append("unmodelled: %s" % e)
        return out
    for pc, outcome, genv_after in paths:
        out["paths"] += 1
        if outcome[0] == "raise":
            out["obligations"] += 1
            verdict, model = solve(ass + pc, 10000, STATS, "c03:l2b:raise")
            if verdict == "sat":
                out["bad"].append({"key": "context-rule:%s:raises:%s" % (show_expr(expr), outcome[1]),
                                   "what": "apply_cond_transformation raises %s on %s (entry %d)" % (outcome[1], show_expr(expr), entry)})
            elif verdict == "unsat":
                out["discharged"] += 1
            continue
        fired, new_instrs, new_tstack = outcome[1]
        if not (fired if not isinstance(fired, P.SymBool) else True):
            continue
        out["fired"] += 1
        rule = genv_after.get("rule", "?")
        try:
            after_val, ctx1 = value_model(new_instrs, consts)
            if len(new_tstack) != len(tstack):
                raise ValueError("target stack length changed")
            after = [after_val(v) for v in new_tstack]
            # surviving variables keep their value
            extra = []
            old_defs = {o for i in instrs for o in i["outpt_sk"]}
            for ins in new_instrs:
                for o in ins.get("outpt_sk", []):
                    if o in old_defs:
                        extra.append((before_val(o), after_val(o), "variable " + o))
        except ValueError as e:
            out["obligations"] += 1
            verdict, model = solve(ass + pc, 10000, STATS, "c03:l2b:shape")
            if verdict == "sat":
                out["bad"].append({"key": "context-rule:%s:%s:malformed" % (show_expr(expr), rule),
                                   "what": "rule %s on %s leaves a malformed instruction list: %s" % (rule, show_expr(expr), e)})
            else:
                out["discharged"] += 1
            continue
        pairs = [(b, a, "target stack position %d" % i) for i, (b, a) in enumerate(zip(before, after))] + extra
        for (bt, bok), (at, aok), label in pairs:
            out["obligations"] += 1
            side = ass + pc + ctx0.side + ctx1.side + ctx0.assumptions + ctx1.assumptions
            goal = side + [z3.Or(bt != at, z3.Not(aok))]
            verdict, model = solve(goal, 6000, STATS, "c03:l2b:value", portfolio=False)
            if verdict == "unknown":
                # MUL/DIV by 1<<c against shifts: decide by a 257-way case split on each symbolic constant
                cands = [("shift", t) for t in (ctx1.shift_amounts + ctx0.shift_amounts)] + list(consts.items()) + \
                    [("in%d" % k, word("in%d" % k)) for k in range(3)]
                for cname, cterm in cands:
                    allunsat = True
                    for case in [cterm == E.BV(k) for k in range(256)] + [z3.UGE(cterm, E.BV(256))]:
                        v2, m2 = solve(goal + [case], 3000, STATS, "c03:l2b:case", portfolio=False)
                        if v2 == "sat":
                            verdict, model, allunsat = "sat", m2, False
                            break
                        if v2 != "unsat":
                            allunsat = False
                            break
                    if allunsat:
                        verdict = "unsat"
                    if verdict != "unknown":
                        break
            if verdict == "unsat":
                out["discharged"] += 1
            elif verdict == "sat":
                asg = {str(d): model[d].as_long() for d in model.decls() if d.name().startswith(("in", "k_")) and model[d] is not None and hasattr(model[d], "as_long")}
                out["bad"].append({"key": "context-rule:%s:%s" % (show_expr(expr), rule), "operands": asg,
                                   "what": "rule %s on %s changes the value of %s (operands %s)" % (rule, show_expr(expr), label, {k: hex(v) for k, v in asg.items()})})
                break
            else:
                out["inconclusive"].append("solver %s on %s / %s" % (verdict, show_expr(expr), rule))
    out["stats"] = STATS.as_dict()
    STATS.reset()
    return out


def copy_instrs(instrs):
    return [dict(i, inpt_sk=list(i["inpt_sk"]), outpt_sk=list(i["outpt_sk"])) for i in instrs]


def show_expr(e):
    if isinstance(e, str):
        return e
    return "%s(%s)" % (e[0], ",".join(show_expr(a) for a in e[1:]))


def context_skeletons(pairs, tier, reader_pairs=()):
    out = []
    leaves = ["X", "Y", "c"]
    for outer, inner in pairs:
        ao, ai = F._arity(outer), F._arity(inner)
        if ao in (None, 0) or ai is None:
            continue
        if ai == 0:
            inners = [(inner,)]
        elif ai == 1:
            inners = [(inner, "X"), (inner, "c")]
        elif ai == 2:
            inners = [(inner, "X", "Y"), (inner, "X", "c"), (inner, "c", "X"), (inner, "X", "X")]
        else:
            continue
        for ie in inners:
            if ao == 1:
                exprs = [(outer, ie)]
            elif ao == 2:
                exprs = []
                for o in ["X", "Y", "Z", "d"]:
                    exprs.append((outer, ie, o))
                    exprs.append((outer, o, ie))
                exprs.append((outer, ie, ie))
            else:
                continue
            for e in exprs:
                for on_stack in (False, True):
                    for entry in (0, 1):
                        out.append((e, on_stack, entry))
    # ISZERO towers
    for base in [("LT", "X", "Y"), ("GT", "X", "Y"), ("EQ", "X", "Y"), ("SLT", "X", "Y"), ("SGT", "X", "Y"), ("GT", "X", "c"), ("LT", "c", "X"),
                 ("EQ", "X", "c"), ("ISZERO", "X"), ("XOR", "X", "Y"), ("SUB", "X", "Y")]:
        e = base
        for k in range(1, 4):
            e = ("ISZERO", e)
            for entry in range(0, k + 1):
                out.append((e, False, entry))
    # two inner terms sharing an operand under one outer instruction, one of them read by a further instruction
    for outer, inner in reader_pairs:
        if F._arity(outer) != 2 or F._arity(inner) != 2:
            continue
        i1 = (inner, "X", "Y")
        for i2 in ((inner, "X", "Z"), (inner, "Z", "Y"), (inner, "X", "c")):
            for top in ((outer, i1, i2), (outer, i2, i1)):
                for which in (i1, i2):
                    for entry in (0, 1, 2):
                        out.append((top, False, entry, ("ADD", which, "d")))
    seen, uniq = set(), []
    for x in out:
        if repr(x) not in seen:
            seen.add(repr(x))
            uniq.append(x)
    return uniq


if __name__ == "__main__":
    main()
