#!/bin/bash
# Idempotent, offline: overlay venv on top of /venv (the repository's interpreter) with the solver tooling.
set -e
HERE="$(cd "$(dirname "${BASH_SOURCE[0]}")" && pwd)"
VENV="$HERE/.venv"
exec 9>"$HERE/.venv.lock"
flock 9
if [ -x "$VENV/bin/python" ] && "$VENV/bin/python" -c "import z3, crosshair, cvc5, jsonschema" 2>/dev/null; then
  exit 0
fi
rm -rf "$VENV"
/venv/bin/python -m venv "$VENV"
SP="$("$VENV/bin/python" -c 'import site;print(site.getsitepackages()[0])')"
printf "import site; site.addsitedir('/venv/lib/python3.12/site-packages')\n" > "$SP/verif_overlay.pth"
PIP_NO_INDEX=1 "$VENV/bin/pip" install -q --no-index --find-links /opt/veriftools/wheels crosshair-tool z3-solver cvc5 jsonschema
"$VENV/bin/python" -c "import z3, crosshair, cvc5, jsonschema; print('overlay venv ready: z3', z3.get_version_string())"
