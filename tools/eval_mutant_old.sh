#!/bin/bash
# usage: tools/eval_mutant_old.sh <verif-commit> <name> <mutant_dir> <check ids...>
# Runs the quick checks of an OLDER revision of /verif (a scratch worktree of it) against a seeded change, to record what the
# checks caught before they were strengthened.  Prints one JSON line; writes nothing under /verif.
set -u
REV="$1"; NAME="$2"; MDIR="$3"; shift 3
OLD="/tmp/verif_old_$REV"
if [ ! -d "$OLD" ]; then git -C /verif worktree add -q --detach "$OLD" "$REV" || exit 2; fi
WT="/tmp/mvo_$NAME"
git -C /repo worktree remove --force "$WT" 2>/dev/null
git -C /repo worktree add -q --detach "$WT" HEAD || exit 2
( cd "$WT" && git apply "$MDIR/patch.diff" ) || { echo "patch does not apply"; git -C /repo worktree remove --force "$WT"; exit 2; }
RES=""
for C in "$@"; do
  T0=$(date +%s)
  ( cd "$OLD" && GASOL_REPO="$WT" timeout 3000 ./check "$C" --tier quick > "/tmp/mvo_${NAME}_$C.log" 2>&1 ); RC=$?
  T1=$(date +%s)
  NV=$(grep -c "^VIOLATION" "/tmp/mvo_${NAME}_$C.log")
  RES="$RES{\"check\":\"$C\",\"exit\":$RC,\"violations\":$NV,\"seconds\":$((T1-T0))},"
done
git -C /repo worktree remove --force "$WT"
echo "{\"name\":\"$NAME\",\"verif_revision\":\"$REV\",\"checks\":[${RES%,}]}"
