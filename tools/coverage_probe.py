#!/usr/bin/env python3
"""Development aid (not a registered check): which lines of the code under test do the block families reach?

Runs the families of C01 (thorough) through the real pipeline (front-end, greedy, checker) under the greedy option sets
with sys.monitoring line events (each location is disabled after its first hit, so the overhead is small) and prints,
per function of the listed modules, the executable lines no family member reached.  A rule, branch or guard that no
member reaches cannot be judged by any translation-validation check, so the output is the to-do list for new families.

usage: .venv/bin/python tools/coverage_probe.py [--families c01|c04|all] [--stride N] [--out file.json]"""
import json
import multiprocessing as mp
import os
import sys

HERE = os.path.dirname(os.path.dirname(os.path.abspath(__file__)))
sys.path.insert(0, HERE)
REPO = os.environ.get("GASOL_REPO", "/repo")
FILES = ["sfs_generator/gasol_optimization.py", "sfs_generator/utils.py", "sfs_generator/ir_block.py", "sfs_generator/rbr_isolate_block.py",
         "greedy/block_generation.py", "verification/sfs_verify.py", "gasol_asm.py", "sfs_generator/asm_bytecode.py",
         "sfs_generator/opcodes.py", "smt_encoding/json_with_dependencies.py"]
ABS = {os.path.join(REPO, f): f for f in FILES if os.path.exists(os.path.join(REPO, f))}
_hit = set()


def _init(o):
    from vlib import gasol
    gasol.setup_process(o)
    mon = sys.monitoring
    mon.use_tool_id(mon.COVERAGE_ID, "verifcov")

    def on_line(code, line):
        f = ABS.get(code.co_filename)
        if f is not None:
            _hit.add((f, line))
        return mon.DISABLE
    mon.register_callback(mon.COVERAGE_ID, mon.events.LINE, on_line)
    mon.set_events(mon.COVERAGE_ID, mon.events.LINE)


def _work(texts):
    from vlib import gasol
    before = len(_hit)
    for t in texts:
        try:
            for b in gasol.parse_plain(t):
                gasol.optimize_one(b)
        except Exception:       # noqa
            pass
    out = list(_hit) if len(_hit) != before else []
    return out


def executable_lines(path):
    src = open(path).read()
    top = compile(src, path, "exec")
    res = {}

    def walk(code, qual):
        lines = {l for _, _, l in code.co_lines() if l is not None}
        name = qual
        res.setdefault(name, set()).update(lines)
        for c in code.co_consts:
            if hasattr(c, "co_lines"):
                if c.co_name.startswith("<") and c.co_name != "<module>":
                    walk(c, qual)          # lambdas / comprehensions belong to the enclosing function
                else:
                    walk(c, (qual + "." if qual != "<module>" else "") + c.co_name)
    walk(top, "<module>")
    return res


def main():
    from vlib import families as F, gasol
    from checks import c01
    stride = int(sys.argv[sys.argv.index("--stride") + 1]) if "--stride" in sys.argv else 1
    ops, texts = c01.build_jobs("thorough")
    fam = sys.argv[sys.argv.index("--families") + 1] if "--families" in sys.argv else "c01"
    if fam in ("all", "c02"):
        texts += F.f_mem_dataflow() + F.f_squares(ops)
    if fam == "existing":
        texts = F.f_rule_existing()
    texts = texts[::stride]
    osets = [gasol.optset("none", "gas", True, True, "greedy"), gasol.optset("storage", "size", True, False, "greedy"),
             gasol.optset("partition", "length", True, True, "greedy"), gasol.optset("none", "gas", False, True, "greedy")]
    hit = set()
    for k, o in enumerate(osets):
        sub = texts if k == 0 else texts[::3]
        chunks = [sub[i:i + 200] for i in range(0, len(sub), 200)]
        with mp.get_context("spawn").Pool(int(os.environ.get("COV_NPROC", "16")), initializer=_init, initargs=(o,)) as p:
            for r in p.imap_unordered(_work, chunks):
                hit.update(map(tuple, r))
        print("option set %s: %d blocks, %d lines hit so far" % (gasol.optset_name(o), len(sub), len(hit)), file=sys.stderr)
    out = sys.argv[sys.argv.index("--out") + 1] if "--out" in sys.argv else "/tmp/verif_coverage.json"
    json.dump(sorted(hit), open(out + ".hits", "w"))
    report = {}
    for ab, f in ABS.items():
        ex = executable_lines(ab)
        for fn, lines in sorted(ex.items(), key=lambda kv: min(kv[1]) if kv[1] else 0):
            if fn == "<module>":
                continue
            missed = sorted(l for l in lines if (f, l) not in hit)
            if missed:
                report.setdefault(f, {})[fn] = {"lines": len(lines), "missed": missed}
    json.dump(report, open(out, "w"), indent=0)
    for f, fns in report.items():
        tot = sum(v["lines"] for v in fns.values())
        mis = sum(len(v["missed"]) for v in fns.values())
        print("%s: %d functions with unreached lines (%d of their %d lines)" % (f, len(fns), mis, tot))


if __name__ == "__main__":
    main()
