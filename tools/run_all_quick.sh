#!/bin/bash
# usage: tools/run_all_quick.sh [ids...]  -- runs the registered quick command of every claimed check against /repo, one after
# the other, and prints exit code and wall time of each (this is what rewrites the committed evidence files)
cd "$(dirname "$0")/.."
IDS="${@:-C01 C02 C03 C04 C05 C06 C07 C08 C09 C10 C11 C12 C14 C15 C16 C17 C18}"
for C in $IDS; do
  T0=$(date +%s)
  ./check $C --tier quick > /tmp/quick_$C.log 2>&1; RC=$?
  T1=$(date +%s)
  echo "$C exit=$RC wall=$((T1-T0))s $(grep -c '^VIOLATION' /tmp/quick_$C.log) violations, $(grep -c '^KNOWN-FINDING' /tmp/quick_$C.log) known"
done
