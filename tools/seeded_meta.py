#!/usr/bin/env python3
"""Writes /verif/seeded/<name>/meta.json from the evaluation logs (first evaluation and, where a check was strengthened,
the re-evaluation) and the descriptions below."""
import glob
import json
import os

HERE = os.path.dirname(os.path.dirname(os.path.abspath(__file__)))
DESC = {
    "C01_m1": ("C01", "apply_transform: rule LT(X,0)=0 lost its `opcode == LT` guard, so SLT(X,0) is folded to 0", "SLT with constant 0 as second operand and a word >= 2^255 at run time"),
    "C01_m2": ("C01", "are_dependent: MSTORE8 vs word overlap test uses +31 instead of +32", "constant offsets exactly 31 apart, word access first, MSTORE8 second, a later MLOAD"),
    "C02_m1": ("C02", "are_dependent: MSTORE8 inside a word tested with +31 (other branch)", "MSTORE8 at word offset + 31 next to an MLOAD/MSTORE of that word"),
    "C02_m2": ("C02", "replace_loads_by_sstores: an intervening MSTORE8 no longer blocks store-to-load forwarding", "MSTORE a v; MSTORE8 inside [a, a+31]; MLOAD a"),
    "C03_m1": ("C03", "evaluate_expression: SAR sign test uses > 2^255 instead of >=", "constant SAR of exactly 0x80..00 by a constant shift >= 1"),
    "C03_m2": ("C03", "apply_cond_transformation: OR(X,AND(X,Y)) absorption returns the wrong operand in one of four operand orders", "OR(b, AND(a,b)) with the AND result used once"),
    "C04_m1": ("C04", "greedy sort_with_deps: only the last load that must precede a store is remembered", "two loads ordered before the same store, one of them only needed afterwards"),
    "C04_m2": ("C04", "greedy must_reverse: the too-far shortcut also applies to non-commutative operations", "a 16-deep stack and a non-commutative operation whose first operand sits at depth 16 (DUP16 SUB)"),
    "C05_m1": ("C05", "compare_variables: the reversed-operand retry for commutative operations checks only half of the operands", "commutative operation with a shared operand in crossed positions"),
    "C05_m2": ("C05", "search_val_in_userdef: only the last operand of a candidate store decides the match", "two stores that differ only in key/offset"),
    "C08_m1": ("C08", "block_has_been_optimized: -length no longer considers byte size as a tie-breaker", "-length and a candidate of equal length, cheaper gas, more bytes"),
    "C08_m2": ("C08", "number_encoding_size: loop condition `number > 1`", "-size and a folded constant whose most significant byte is 0x01"),
    "C11_mA": ("C11", "optimize_asm_from_log skips verification when every logged sequence of a block is empty", "replay with a tampered log whose entries for a block are []"),
    "C17_mB": ("C17", "parser_asm imports push0_enabled by value (frozen at import)", "-push0 (PUSH0 disabled) and an input PUSH 0"),
    "C18_m1": ("C18", "_simplify_implies drops both negations of (not p) => (not q), giving the converse", "implication with both sides negated"),
    "C18_m2": ("C18", "Connector.__eq__ loses the arity check for commutative connectors (zip truncates)", "and/or/distinct with different argument counts"),
    "C09_mA": ("C09", "AsmBytecode.to_json tests `if self.value:`; a PUSHLIB with internal index 0 loses its value", "a block with a library reference (first library of the block)"),
    "C14_mB": ("C14", "rebuild_optimized_asm_block never resets previously_optimized", "three or more sub-blocks, sub-block k replaced and k+1 not"),
    "C10_mA": ("C10", "rule LT(X,1) with an existing ISZERO(X) no longer deletes the LT: the fix-point loop never ends", "LT(x,1) and ISZERO(x) on the same value"),
    "C12_mB": ("C12", "already_considered (cache of folded constant expressions) is no longer reset per block", "an earlier block folded the same constant expression at the same depth"),
    "C06_mA": ("C06", "non_comm_function_encoding leaves the deepest stack cell unconstrained after a binary operation", "binary non-commutative operation executed while the encoded stack is full"),
    "C07_mB": ("C07", "update_current_index uses min instead of max for the upper position bound of operand-less instructions", "an operand-less instruction with two dependants at different heights"),
    "C15_mA": ("C15", "build_asm_bytecode recognises PUSH0 for any name starting with PUSH", "PUSH0 enabled and a pseudo-push with operand exactly 0"),
    "C01_r2a": ("C01/C03", "apply_cond_transformation: the guard of AND(SHL(X,Y),SHL(X,Z)) => SHL(X,AND(Y,Z)) tests the same SHL twice for other consumers", "two SHL by one amount ANDed, one SHL result read by one more instruction, neither on the final stack"),
    "C01_r2b": ("C01/C03", "check_inputs: a commutative instruction matches an existing one if both operands merely occur in it (MUL(X,X) ~ MUL(X,Y))", "two instructions of one commutative opcode, the square defined first"),
    "C01_r2c": ("C01/C03", "rule MUL(SHL(Y,1),X) => SHL(Y,X) keeps the MUL's commutative mark in one branch; greedy and the checker then accept swapped operands", "(1<<Y)*X with the SHL result as first MUL operand and greedy preferring the swapped order"),
    "C02_r2a": ("C02", "are_dependent: a store at exactly offset+length-1 after a constant KECCAK256 is no longer ordered after it", "constant hash range followed by MSTORE/MSTORE8 at its last byte"),
    "C02_r2b": ("C02", "remove_store_recursive_dif: an intervening MSTORE8 no longer blocks removal of a repeated MSTORE(x,y)", "MSTORE a v; MSTORE8 inside the word; MSTORE a v"),
    "C05_r2a": ("C05", "compare_dependences: reduced lists of different length are accepted when the closures have the same size", "a reordering of four memory operations with 3 vs 4 reduced pairs and 5-pair closures"),
    "C04_r2a": ("C04", "greedy compute_one_with_stack prints DUPn from a stale position: DUP17/DUP18 with error == 0", "a value at depth >= 16 fetched twice in a row as its last two uses with the SWAP route blocked (DUP16 DUP1 ADD SWAP16 POP)"),
    "C16_r2a": ("C16", "compute_vars counts operand positions instead of instructions reading an initial variable: max_sk_sz one too small", "an initial element that is both operands of one instruction and stays in the final stack, tight estimate (DUP1 DUP1 MUL SWAP1)"),
    "C14_r2a": ("C14", "rebuild_optimized_asm_block re-emits the shared split instruction only if the replacement does not already end with one that prints like it", "replacement ending in the split opcode, or an empty replacement between two equal split instructions"),
    "C06_r2a": ("C06", "generate_dependency_graph_minimum merges the happens-before sets the wrong way round: a later ordering tuple is dropped as implied", "-memory-encoding l_vars and x = load(p); store(a,b); store(c,x) with the load address produced by an instruction"),
    "C07_r2a": ("C07", "update_with_tree_level gives the third operand of a non-commutative instruction the bound i-3 instead of i-2", "ADDMOD/MULMOD whose third operand is computed two positions earlier, program tight against init_progr_len"),
    "C07_r2b": ("C07", "unique_ui: every operand-less non-PUSH instruction is treated as exactly-once", "gas criterion and a 2-gas nullary opcode (CALLER, CALLVALUE) whose value is needed twice"),
    "C08_r2a": ("C08", "improves_criterion: on a tie the secondary savings are compared lexicographically instead of requiring none to be negative", "-length, a candidate of equal length that saves gas and costs more bytes"),
    "C17_r2a": ("C17", "asm_bytecode.is_push0 accepts every name starting with PUSH", "PUSH0 enabled and a pseudo-push whose operand is spelled 0 (plain-text input, ids2asm output)"),
    "C18_r2a": ("C18", "ExpressionReference.__eq__ compares arguments by membership instead of position", "two applications of one function of arity >= 2 with permuted or repeated arguments"),
    "C09_r2a": ("C09", "rebuild_optimized_asm_block restores the library name into every pseudo-push whose operand equals a library index of the block", "an optimized block with PUSHLIB and another pseudo-push with operand 0/1"),
    "C11_r2a": ("C11", "AsmBlock.instructions_final_bytecode scans only the last instruction, so the replay check no longer sees a block-ending opcode in the middle", "a log entry with a raw STOP/RETURN/JUMP name among otherwise correct ids"),
    "C12_r2a": ("C12", "sstore_seq is no longer reset in init_globals and generate_storage_info consumes it by alias", "an earlier block whose analysis raised after an SSTORE/KECCAK256 expression was appended"),
    "C16_mB": ("C16", "update_with_tree_level applies the two-positions-earlier rule to commutative instructions too: min_length one too large", "second operand of a commutative operation is the deepest dependency chain"),
    "C15_r3a": ("C15", "build_asm_bytecode: the PUSH0 branch no longer passes modifierDepth to the item it builds", "PUSH0 enabled and a zero push inside a modifier body (item with modifierDepth)"),
    "C03_r3a": ("C03/C01", "apply_cond_transformation: the look-up of an existing instruction in rule DIV(X,SHL(Y,1)) => SHR(Y,X) filters on SHL instead of SHR", "a DIV by 1<<Y next to a live SHL(Y,X) with the same operands"),
    "C09_r3a": ("C09", "optimize_asm_contract creates the list of run-code blocks once instead of once per sub-assembly: every code-bearing .data entry gets the concatenation of all of them", "a contract whose top-level .data has two or more entries with .code"),
    "C11_r3a": ("C11/C05", "compare_storage_userdef_ins tests the opcode names exactly: MSTORE8 is no longer a memory instruction for the checker", "a block with MSTORE8 and a log that drops the byte store or rewires its operands"),
    "C05_r3a": ("C05", "compare_variables memoises pairs of instruction ids found equal; the memo is cleared once per block instead of once per sub-block", "two sub-blocks, the difference in a later one, defined by an instruction id that also occurs (compared equal) in an earlier one"),
    "C12_r3a": ("C12", "modified_userdef_vals (renamings of duplicated terms) is initialised at module level instead of in init_globals", "an earlier block with the same commutative term twice, then a block storing a computed term with the stale name"),
    "C02_r3a": ("C02", "generate_dependences stops ordering a load before later stores at the first full store to the syntactically same key", "SLOAD(k); SSTORE(k,v); SSTORE(k',v) with k' a computed key that may equal k"),
    "C08_r3a": ("C08", "opcodes.py: SELFBALANCE moved from the 5-gas tier to the 2-gas tier", "a block that uses one SELFBALANCE value twice (SELFBALANCE DUP1 ...)"),
    "C04_r3a": ("C04", "greedy compute_one_with_stack: the operands-already-on-top shortcut lost its commutativity guard", "a non-commutative binary operation whose operands sit on top in swapped order, each with one remaining use (SWAP1 SUB)"),
    "C10_r3a": ("C10", "get_sequence rebinds its list argument instead of shrinking it in place: split_by_numbers never makes progress", "-partition and a block of more than 22 instructions with a store within the first window"),
    "C18_r3a": ("C18", "and/or simplification folded into one helper that decides x together with not(x) as False for both connectives", "an or that contains, after flattening, an argument and its negation"),
    "C17_r3a": ("C17", "the -c contract filter matches with endswith on the full name instead of equality on the short name", "-c NAME and another contract whose name ends with NAME later in the document"),
    "C06_r3a": ("C06", "ld_sto_dependency (direct memory encoding): the range of forbidden load positions after a store loses its last position", "-memory-encoding direct, a load that must precede a store, the load at its last allowed position"),
    "C01_r3a": ("C01/C02", "unify_keccak_instructions compares the offsets of two KECCAK256 but no longer their lengths", "two KECCAK256 over the same offset with different lengths in one sub-block"),
    "C16_r3a": ("C16", "replace_loads_by_sstores discounts one instruction from init_progr_len for every forwarded load", "a store followed by a load of the same place whose address is a stack input, loaded value still needed (DUP2 DUP2 SSTORE SLOAD)"),
    "C14_r3a": ("C14", "generate_subblocks skips empty sub-blocks before the running source stack is advanced past their split instruction", "two adjacent split instructions, or a split instruction first in the block, followed by a non-empty sub-block"),
    "C07_r3a": ("C07", "soft_constraints_direct: no soft clause for an instruction at the last position of its window", "-direct-inequalities and an expensive instruction that can be delayed to its upper position bound"),
}


def main():
    results = {}
    for f in sorted(glob.glob(os.path.join(HERE, "seeded", "_eval", "mutant_eval_*.log"))):
        for line in open(f):
            try:
                d = json.loads(line)
            except ValueError:
                continue
            results.setdefault(d["name"], []).append(d)
    # evaluations of an older revision of the checks (tools/eval_mutant_old.sh): what was caught before strengthening
    older = {}
    for f in sorted(glob.glob(os.path.join(HERE, "seeded", "_eval", "old_eval_*.log"))):
        for line in open(f):
            try:
                d = json.loads(line)
            except ValueError:
                continue
            older[d["name"]] = d
    rows = []
    for name, (prop, change, needs) in DESC.items():
        d = os.path.join(HERE, "seeded", name)
        if not os.path.isdir(d):
            continue
        evals = results.get(name, [])
        first = evals[0] if evals else None
        last = evals[-1] if evals else None
        if name in older and first is not None:
            # the recorded first run already used strengthened checks: the older revision is the true "before"
            o = dict(first)
            o["checks"] = older[name]["checks"]
            o["verif_revision"] = older[name]["verif_revision"]
            if last is first:
                last = dict(first)
            first = o
        meta = {"property": prop, "change": change, "needs_to_manifest": needs,
                "confirmed": {"demo_exit_unchanged_tree": first and first["demo_clean_exit"], "demo_exit_with_patch": first and first["demo_mutant_exit"],
                              "stable_tests_with_patch": next((e["stable_tests"] for e in evals if e["stable_tests"] != "skipped"), None)},
                "ran": "tools/eval_mutant.sh %s <dir> <checks>: scratch worktree of /repo HEAD + patch, demo with/without patch, 46 stable tests with patch, "
                       "then `GASOL_REPO=<scratch> ./check <id> --tier quick`" % name,
                "first_evaluation": first and first["checks"], "first_evaluation_verif_revision": first and first.get("verif_revision", "as committed at the time"), "after_strengthening": (last["checks"] if last is not first else None)}
        with open(os.path.join(d, "meta.json"), "w") as f:
            json.dump(meta, f, indent=1)
        def verdict(e):
            return ", ".join("%s:%s" % (c["check"], "caught" if c["exit"] == 1 else ("harness-error" if c["exit"] == 3 else "missed")) for c in e["checks"])
        rows.append((name, prop, change, verdict(first) if first else "-", verdict(last) if last and last is not first else ""))
    lines = ["| seeded change | property | what was changed | first evaluation | after strengthening |", "|---|---|---|---|---|"]
    for r in rows:
        lines.append("| %s | %s | %s | %s | %s |" % r)
    print("\n".join(lines))
    import sys
    if "--design" in sys.argv:
        p = os.path.join(HERE, "DESIGN.md")
        s = open(p).read()
        b, e = "<!-- CALIBRATION-TABLE-BEGIN -->", "<!-- CALIBRATION-TABLE-END -->"
        if b in s and e in s:
            s = s[:s.index(b) + len(b)] + "\n" + "\n".join(lines) + "\n" + s[s.index(e):]
            open(p, "w").write(s)


if __name__ == "__main__":
    main()
