#!/usr/bin/env python3
"""Writes /verif/MANIFEST.json from the table below (one place to keep the interface current)."""
import json
import os

HERE = os.path.dirname(os.path.dirname(os.path.abspath(__file__)))

CHECKS = {
    "C01": dict(
        level="translation_validation", design="5/C01", engine="E1 EVM-SMT + pipeline driver",
        technique="SMT translation validation (z3 BV256 block equivalence of the emitted block vs the input, per option set)",
        text="Every block of the stated families is run through the real optimize/compare/keep-or-revert pipeline under "
             "each option set; for every block whose emitted form differs, one SMT query decides whether any machine state "
             "(stack words, memory bytes, storage, environment) separates input and output; models are replayed on an "
             "independent concrete interpreter before being reported. Bounded by the block families, not by states.",
        note="Trusted: the E1 semantics (validated every run against its concrete twin), z3/cvc5. Assumes memory offsets "
             "and lengths < 2^32, no gas exhaustion; /usr/bin/z3 stands in for the Max-SMT solver. Blocks outside the "
             "families are outside the claim."),
    "C02": dict(
        level="translation_validation", design="5/C02", engine="E2 Spec-SMT vs E1 EVM-SMT",
        technique="SMT query over machine state and a symbolic schedule (integer position variables) comparing the real "
                  "front-end's specification with the block",
        text="For every block of the families and each split/rule/criterion setting the real front-end produces the "
             "specification; one SMT query per sub-block asks for a machine state and an admissible linearisation of the "
             "memory/storage operations under which the specification and the sub-block differ (stack, memory byte, storage "
             "slot); a second query per unordered pair of accesses asks for a state in which they overlap; a third, cached per "
             "opcode, asks whether an instruction marked commutative really commutes for all words (the mark lets every back "
             "end swap its operands). Counterexamples are replayed on concrete twins of both semantics.",
        note="Trusted: E1/E2 semantics (E1 validated against its twin every C01 run), z3/cvc5. Schedules are fully symbolic "
             "for specifications with <= 6 (quick) / 8 (thorough) memory operations; larger ones are counted, not decided. "
             "Offsets/lengths < 2^32."),
    "C03": dict(
        level="translation_validation", design="5/C03", engine="pysym (Python AST -> z3) + E2/E1",
        technique="symbolic execution of the rule/folding source (AST -> z3 bit-vectors), one SMT query per path against "
                  "the EVM operator semantics; symbolic execution of the context rules from symbolic instruction-list pre-states; "
                  "SMT equivalence of rules-on specifications vs the block",
        text="The source of evaluate_expression, evaluate_expression_ter and apply_transform is re-read on every run and "
             "executed symbolically from its AST with operands, constants and variable values symbolic over all of "
             "[0,2^256); each path's result is compared by z3 with the EVM operator (and must not raise or build "
             "unbounded integers). apply_cond_transformation (the context rules) is executed symbolically on instruction "
             "lists outer(inner(..), other) / outer(inner, inner') with an optional further reader, symbolic constants and "
             "operand values, assuming no local rule fires: every fired rule must keep the value of each target-stack "
             "position and surviving variable. At block level the specification produced with rules on is decided against the block "
             "for the rule families, and in size mode a sound lower bound of the rules-on code size is compared with the "
             "original.",
        note="Trusted: vlib.pysym's model of Python integers (520-bit signed bit-vectors with explicit no-overflow "
             "obligations), E1 operator semantics, z3/cvc5. apply_cond_transformation (context rules) is covered at block "
             "level only, on the F-rule pair/chain templates."),
    "C04": dict(
        level="translation_validation", design="5/C04", engine="reference stack machine + E1/E2",
        technique="reference stack-machine simulation of the returned ids plus SMT equivalence (E1 of the rebuilt assembly "
                  "vs E2 of the specification under the induced schedule)",
        text="Specifications from the real front-end (three split modes, rules on/off) and a natively enumerated family "
             "of hand-built well-formed specifications are given to the real greedy_from_json; every sequence it reports "
             "as a success is executed on an independent stack machine over names (underflow, depths 1..16, operands, "
             "stores once, ordering constraints, final stack) and the assembly rebuilt by asm_from_ids is decided by z3 "
             "to denote the specification for all machine states.",
        note="Trusted: vlib.realize.simulate, E1/E2, z3. Specification shapes are enumerated (bounded family), states are "
             "symbolic. Hand-built ordering constraints involve at least one store, as the front-end produces them."),
    "C05": dict(
        level="translation_validation", design="5/C05", engine="E1 EVM-SMT on pairs the real checker accepts",
        technique="SMT block equivalence (z3 BV256) asked for every pair the real checker answers 'equal' for",
        text="Pairs (B, B') built with the mutation operators the property names (operand swap, signed/unsigned and "
             "shift-kind substitution, constant changes, dropped/duplicated/transposed stores, DUP/SWAP index) are given "
             "to the real compare_asm_block_asm_format under four option sets; every acceptance is decided by the SMT "
             "equivalence query over all machine states, a separating state is replayed on the concrete twin. "
             "Reflexivity and exception-freedom are checked on every base block. External-checker adapter: compare_forves is run "
             "with an ideal checker in place of the missing binary (it reads the adapter's file with an independent reader and "
             "answers true exactly when the SMT query proves every rendered pair equivalent); every 'true' of the adapter is "
             "decided by the SMT query on the original pair.",
        note="Trusted: E1 semantics, z3. The forves binary is absent: the adapter (rendering, segment pairing, answer mapping) is "
             "what is decided, with run_command rebound to an ideal checker (stub, in evidence); forves itself is not judged. "
             "Pairs outside the mutation families are not covered."),
    "C06": dict(
        level="model_checking", design="5/C06", engine="z3 on the real .smt2 text + E3 Realize-SMT",
        technique="SMT model-set inclusion: hard constraints of the real encoding, linked through theta_to_instr to an independent "
                  "functional stack-machine encoding, conjoined with the negation of 'realizes' must be UNSAT",
        text="For every specification with init_progr_len <= 5 from the small-vocabulary families and 24 (quick) / 256 "
             "(thorough) encoder option sets, the SMT-LIB text of the real BlockOptimizer is parsed strictly by z3 "
             "(well-formedness) and one inclusion query decides that *every* model of its hard constraints decodes to a "
             "realizing sequence; a model is decoded by the tool's own reader and replayed on the reference stack machine "
             "before being reported; the hard constraints are also checked satisfiable (non-vacuity).",
        note="Trusted: vlib.synth, z3's SMT-LIB parser. The Max-SMT solver is never run. Three recorded findings concern "
             "-push-basic and specifications with max_sk_sz = 0."),
    "C07": dict(
        level="model_checking", design="5/C07", engine="z3 Optimize on the real Max-SMT problem + Optimize over E3",
        technique="MaxSMT: z3 Optimize on the emitted hard+soft constraints vs z3 Optimize over an independent synthesis encoding "
                  "with an independent price table",
        text="For every specification with init_progr_len <= 5, each criterion and each encoder option set (order bounds and "
             "conflicts, memory encoding, grouped/direct soft constraints, optional pruning constraints), z3's Optimize solves "
             "the real emitted problem; its optimum is decoded by the tool's own reader, replayed on the reference stack "
             "machine and priced with vlib.cost; the price must equal the minimum over all realizing sequences within the "
             "bounds computed by Optimize over vlib.synth; an unsatisfiable encoding of a feasible specification is a violation.",
        note="Trusted: vlib.synth, vlib.cost, z3 Optimize (stand-in for the Max-SMT solver). -push-basic is excluded (C06 "
             "findings). Larger specifications are outside the claim."),
    "C08": dict(
        level="translation_validation", design="5/C08", engine="pysym on the decision logic + independent cost model on pipeline outputs",
        technique="symbolic execution of the accept/reject and selection functions (AST -> z3) with symbolic cost vectors; "
                  "independent cost model on every emitted block",
        text="improves_criterion, block_has_been_optimized, compare_best_block, update_*_count and get_ins_size are executed "
             "symbolically from their current source; z3 decides for all cost vectors (all PUSH constants) that acceptance "
             "coincides with the lexicographic rule of the property, that the selected candidate saves at least as much as "
             "the other, and that the byte size equals the independent formula. Every block of the families is run through "
             "the pipeline under the 12 covering option sets and measured by an independent cost table.",
        note="Trusted: vlib.pysym, vlib.cost (context dependent gas at its minimum + non-increasing occurrence counts; "
             "memory expansion not modelled), z3. choose_best_solution is exercised through the pipeline only."),
    "C15": dict(
        level="other", design="5/C15", engine="CrossHair on harness/ch_c15.py + native enumeration of multi-item layouts",
        technique="CrossHair symbolic execution (z3) of the real parser and serialiser with symbolic item kind, numeric fields, "
                  "PUSH0 switch and digits",
        text="CrossHair explores all paths of the real build_asm_contract/to_asm_json and plain-text parse/render functions "
             "for one item of a symbolically chosen kind (20 kinds, optional jumpType/modifierDepth incl. 0, nested .data, "
             "sourceList) with begin/end/source/modifierDepth unconstrained and the PUSH0 switch symbolic, and of the constant "
             "parser under three spellings with symbolic digit and leading zeros; each must be 'Confirmed over all paths', a "
             "reachability twin must be refuted. Sequences of up to 2 (quick) / 3 (thorough) items are enumerated natively.",
        note="Trusted: CrossHair/z3. Bound: one item per section under CrossHair (two in thorough); longer documents and longer "
             "numerals are covered by native enumeration or not at all."),
    "C16": dict(
        level="model_checking", design="5/C16", engine="E3 Realize-SMT (own synthesis encoding, z3)",
        technique="SMT synthesis queries over all instruction sequences within the published bounds (existence and "
                  "non-existence), witnesses replayed on a reference stack machine",
        text="For every specification the real front-end produces on the families (4 option sets) z3 decides, with an "
             "independent stack-machine encoding in which the instruction sequence is free, that a realizing sequence exists "
             "within init_progr_len and max_sk_sz (the witness is replayed on vlib.realize.simulate) and that none exists below "
             "min_length, min_length_instrs and min_length_bounds; original_instrs is compared with the reported sub-block.",
        note="Trusted: vlib.synth (validated against vlib.realize on every witness), z3. Specifications with init_progr_len > 10 "
             "are counted, not decided."),
    "C17": dict(
        level="other", design="5/C17", engine="pysym on generate_push_instruction + enumerated finite domains + pipeline",
        technique="symbolic execution (AST -> z3) of the push generator with a symbolic PUSH0 flag and constant; finite "
                  "domains (flag x spelling, contract selections) enumerated",
        text="generate_push_instruction runs symbolically with the PUSH0 switch and the constant symbolic: z3 decides on "
             "every path that name, id, gas and size are those of PUSH0 exactly when the flag is on and the constant is "
             "zero. The pricing/emission of both spellings of a zero push and nine contract selections on a document whose "
             "contract names are suffixes/prefixes of one another (the output for a selection must equal that contract's part "
             "of the whole-document output, a name matching no contract with code must be refused) are finite domains and are "
             "enumerated; pipeline outputs under both flag settings are checked for PUSH0 leakage and for "
             "agreement of the tool's accounting with the independent cost model.",
        note="Trusted: vlib.pysym, vlib.cost. Only the first clause has a semantic variable for a solver; the rest is "
             "exhaustive enumeration of small finite domains plus translation validation on pipeline outputs."),
    "C09": dict(
        level="other", design="5/C09", engine="pysym on id_to_asm_bytecode + independent reader on whole documents",
        technique="symbolic execution (AST) of the id -> assembly item conversion with a symbolic operand; translation "
                  "validation of whole emitted documents by an independent reader",
        text="id_to_asm_bytecode is executed from its source for every instruction kind with the operand value symbolic: on "
             "every path the emitted item must carry the canonical hexadecimal (PUSH, data, immutable) or decimal (tag, "
             "sub-assembly, library) rendering of exactly the specified number. Shipped documents are optimized by the real "
             "tool under 3 (quick) / 6 (thorough) option sets, together with a synthetic document (two contracts with code, several "
             "code-bearing data entries side by side and nested, every pseudo-push kind, library indices that coincide with "
             "other operands), and compared with the input by an independent JSON reader "
             "(contracts, version, auxdata, data, source lists, every non-optimizable item with all fields, well-formedness "
             "and provenance of every emitted item, re-read by the tool's own parser).",
        note="The document part is concrete validation on shipped inputs, not a solver verdict; the rebuild lemmas over all "
             "small block layouts are decided in C14. Pseudo-push operands are compared numerically."),
    "C12": dict(
        level="model_checking", design="5/C12", engine="CrossHair havoc of module globals + native histories in fresh processes",
        technique="CrossHair symbolic execution (z3) of the real front-end from an arbitrary symbolic pre-state of its scalar, "
                  "string-list and dictionary module globals (one inductive step instead of histories); counterexamples replayed natively",
        text="Every module-level name assigned inside a function of the specification generator is found by an AST walk of "
             "the current source; all scalar ones (28 on this tree) are set to unconstrained symbolic values at once and the "
             "real evm2rbr_compiler/get_sfs_dict runs on 11 concrete blocks under 3 (quick) / 4 (thorough) option sets: CrossHair "
             "must confirm over all paths that specification and sub-block list equal a fresh interpreter's. Every string-list "
             "global and every dictionary global of an observed shape (str->str, str->int, int->str) is, one at a time, set to an "
             "arbitrary value with at most one element. Dictionaries with tuple or nested values, "
             "emitted code and statistics are covered by real histories (0-2 predecessor blocks plus earlier subjects, one "
             "fresh process per history).",
        note="Option-determined globals keep their option value (the quantifier says 'same options'). CrossHair stubs the "
             "three debug-dump file writes. Histories are enumerated from a pool, not exhaustive."),
    "C14": dict(
        level="other", design="5/C14", engine="pysym on split_by_numbers + bounded-exhaustive class sequences through the real front-end",
        technique="symbolic execution (AST -> z3) of the partition heuristic over symbolic store positions; bounded-"
                  "exhaustive enumeration of block layouts through the real splitter and rebuild code",
        text="split_by_numbers runs symbolically on a strictly increasing list of up to 4 (quick) / 5 (thorough) symbolic store "
             "positions below 64: z3 decides on every path that the cut points are store positions, increasing, ending at "
             "the last store and greedy w.r.t. max_bound. All opcode-class sequences of length <= 3 (quick) / 4 (thorough) "
             "with and without tag/jump frame, plus long blocks around the threshold with enumerated store placements, go "
             "through the real front-end under the three policies (rules on/off): partition with shared split instruction, "
             "key/original_instrs correspondence, stack-height chaining (independent arity table), rebuild identity and "
             "single-segment replacement are checked on each.",
        note="The layout family is enumerated exhaustively (syntactic bound); only the heuristic has numeric inputs for the "
             "solver. Layouts outside the family are outside the claim."),
    "C10": dict(
        level="other", design="5/C10", engine="pysym kernel obligations + budgeted pipeline runs + fault injection",
        technique="symbolic execution (AST -> z3) of the arithmetic kernel for raise paths and integer-size obligations; "
                  "budgeted runs and fault injection for what cannot be encoded",
        text="For all operands in [0,2^256) z3 decides that evaluate_expression, evaluate_expression_ter and apply_transform "
             "(executed from their current source) neither raise nor build integers beyond a stated size. Whole-pipeline "
             "termination cannot be encoded: stress blocks (boundary constants for EXP/shifts/division, NOT/ISZERO chains, 17+ "
             "live values, rule pairs, existing-result blocks, a block-ending instruction in the middle, blocks of 23-47 "
             "instructions for the partition heuristic, doubling chains (DUP1 OP)^n) run through the real optimize_asm_contract under four option sets within a CPU budget, "
             "and an injected analysis fault must cost exactly the marked block in a two-block contract and a document.",
        note="Only the kernel part is a solver verdict over all inputs; budgets and containment are exercised, not proved. "
             "Fault injection rebinds ir_block.evm2rbr_compiler inside the harness process (listed as a stub)."),
    "C11": dict(
        level="translation_validation", design="5/C11", engine="E1 EVM-SMT on replayed logs + fresh-process round trip",
        technique="bounded-exhaustive tamper space; every log the real replay accepts is decided by SMT block equivalence",
        text="For each block every log over the block's ids plus DUP/SWAP/POP and foreign ids up to length 3 (quick) / 4 "
             "(thorough), and every single-edit mutant of the genuine log, goes through the real "
             "optimize_asm_block_from_log and compare_asm_block_asm_format; for every accepted log z3 decides whether any "
             "machine state separates the rebuilt block from the input. The genuine-log round trip (optimize with -log, "
             "replay in a fresh process, compare files) is run on shipped documents under two option sets.",
        note="Trusted: E1, z3. The round trip is concrete validation of the determinism premise, not a solver verdict. "
             "Logs longer than the bound other than single-edit mutants are outside the claim."),
    "C18": dict(
        level="translation_validation", design="5/C18", engine="z3 over enumerated formula shapes",
        technique="SMT equivalence (z3) of constructed formula, parsed SMT-LIB text and raw tree, for all valuations",
        text="All formula trees of the stated bounded family are built through the real add_* constructors and rendered "
             "by translate_formula; z3 decides, for all valuations of the atoms, that the constructed object, the parsed "
             "text and the unsimplified tree agree, and that structurally equal formulas are equivalent.",
        note="Trusted: z3, the independent connective semantics in checks/c18.py. Shapes outside depth<=3 (+ depth 4 with "
             "<= 6 nodes) are outside the claim."),
}

NOT_APPLICABLE = {
    "C13": "what varies is the CPython runtime (string-hash seed driving set iteration order, uuid4, file system), not an "
           "input of any function a solver could range over; differential re-execution is a different technique family "
           "(DESIGN.md section 8)",
}

PENDING_REASON = "check not built yet in this round (planned per DESIGN.md section 5); not claimed until it exists"


def main():
    ids = ["C%02d" % i for i in range(1, 19)]
    checks = []
    for pid in ids:
        c = CHECKS.get(pid)
        if not c:
            continue
        checks.append({
            "property_id": pid,
            "quick_cmd": "./check %s --tier quick" % pid,
            "thorough_cmd": "./check %s --tier thorough" % pid,
            "evidence_file": "evidence/%s.json" % pid,
            "replay_cmd_template": "./check %s --replay {path}" % pid,
            "engine": c["engine"],
            "level_claimed": {"category": c["level"], "text": c["text"], "design_ref": "DESIGN.md section " + c["design"]},
            "level_note": c["note"],
            "technique": c["technique"],
        })
    na = []
    for pid in ids:
        if pid in CHECKS:
            continue
        na.append({"property_id": pid, "reason": NOT_APPLICABLE.get(pid, PENDING_REASON)})
    m = {
        "version": 1,
        "setup_cmd": "./setup.sh",
        "hooks": {
            "guard": "GASOL_VERIF",
            "enable": "no source hooks: the harness rebinds names inside its own worker processes (stubs listed in evidence)",
            "baseline_off_cmd": "cd /repo && /venv/bin/python -m pytest -ra -q -p no:cacheprovider --timeout=900 "
                                "--continue-on-collection-errors",
            "source_commits": [],
            "add_only": True,
        },
        "engines": [
            {"name": "E1 EVM-SMT", "path": "vlib/evm_smt.py", "serves_properties": ["C01", "C02", "C03", "C04", "C05", "C11"],
             "kind_free_text": "z3 BV256 semantics of straight-line solc assembly blocks, read-over-write byte memory, "
                               "storage arrays, events with shared havoc; concrete twin vlib/evm_conc.py"},
            {"name": "E2 Spec-SMT", "path": "vlib/spec_smt.py", "serves_properties": ["C02", "C03", "C04"],
             "kind_free_text": "specification semantics with integer position variables per memory/storage operation"},
            {"name": "driver", "path": "vlib/gasol.py", "serves_properties": ids,
             "kind_free_text": "runs the real pipeline from /repo's working tree, one fresh process per option set"},
        ],
        "checks": checks,
        "not_applicable": na,
        "notes": "All checks import GASOL from /repo's current working tree (GASOL_REPO overrides). Exit 0 = held on "
                 "everything explored, 1 = VIOLATION line(s), 3 = harness error (machinery needs attention).",
    }
    with open(os.path.join(HERE, "MANIFEST.json"), "w") as f:
        json.dump(m, f, indent=1)
    print("MANIFEST.json:", len(checks), "checks,", len(na), "not claimed")


if __name__ == "__main__":
    main()
