#!/bin/bash
# usage: tools/run_baseline.sh [tree]   -- runs the pinned test command in <tree> (default /repo) and reports the 46 stable tests
T="${1:-/repo}"
( cd "$T" && /venv/bin/python -m pytest -q -p no:cacheprovider --timeout=900 --continue-on-collection-errors --junitxml=/tmp/baseline_$$.xml >/dev/null 2>&1 )
/venv/bin/python - /tmp/baseline_$$.xml <<'PY'
import json,sys,xml.etree.ElementTree as ET
b=json.load(open('/root/.vp/BASELINE.json'))
t=ET.parse(sys.argv[1]).getroot()
ok=set()
for tc in t.iter('testcase'):
    if not any(c.tag in('failure','error','skipped') for c in tc):
        ok.add(tc.get('classname')+'::'+tc.get('name'))
missing=[x for x in b['stable_pass'] if x not in ok]
print("stable tests passing: %d/%d" % (len(b['stable_pass'])-len(missing), len(b['stable_pass'])), missing[:5])
sys.exit(1 if missing else 0)
PY
RC=$?
rm -f /tmp/baseline_$$.xml
cd "$T" && git status --short | head -5
exit $RC
