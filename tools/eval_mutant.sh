#!/bin/bash
# usage: tools/eval_mutant.sh <name> <mutant_dir> <check ids...>
# Confirms the mutant in a scratch worktree (demo fails with the patch, passes without; stable tests pass with it),
# then runs the given quick checks against the patched scratch tree (GASOL_REPO) and records the outcome.
set -u
NAME="$1"; MDIR="$2"; shift 2
WT="/tmp/mv_$NAME"
OUT="/verif/seeded/$NAME"
mkdir -p "$OUT"
cp "$MDIR/patch.diff" "$OUT/patch.diff"; cp "$MDIR/demo.py" "$OUT/demo.py"; [ -f "$MDIR/README.md" ] && cp "$MDIR/README.md" "$OUT/README.md"
git -C /repo worktree remove --force "$WT" 2>/dev/null
git -C /repo worktree add -q --detach "$WT" HEAD || exit 2
( cd "$WT" && /verif/.venv/bin/python "$OUT/demo.py" "$WT" >/dev/null 2>&1 ); CLEAN=$?
( cd "$WT" && git apply "$OUT/patch.diff" ) || { echo "patch does not apply"; git -C /repo worktree remove --force "$WT"; exit 2; }
( cd "$WT" && /verif/.venv/bin/python "$OUT/demo.py" "$WT" >/dev/null 2>&1 ); MUT=$?
TESTS="skipped"
if [ "${RUN_TESTS:-1}" = "1" ]; then
  ( cd "$WT" && /venv/bin/python -m pytest -q -p no:cacheprovider --timeout=900 --continue-on-collection-errors --junitxml=/tmp/mv_$NAME.junit.xml >/dev/null 2>&1 )
  TESTS=$(/venv/bin/python - "$NAME" <<'PY'
import json,sys,xml.etree.ElementTree as ET
b=json.load(open('/root/.vp/BASELINE.json'))
t=ET.parse('/tmp/mv_%s.junit.xml'%sys.argv[1]).getroot()
ok=set()
for tc in t.iter('testcase'):
    if not any(c.tag in('failure','error','skipped') for c in tc):
        ok.add(tc.get('classname')+'::'+tc.get('name'))
missing=[x for x in b['stable_pass'] if x not in ok]
print("pass" if not missing else "FAIL:%s"%missing[:3])
PY
)
fi
RES=""
for C in "$@"; do
  T0=$(date +%s)
  ( cd /verif && VERIF_EVIDENCE_DIR=/tmp/mv_evidence_$NAME GASOL_REPO="$WT" timeout 3000 ./check "$C" --tier quick > "/tmp/mv_${NAME}_$C.log" 2>&1 ); RC=$?
  T1=$(date +%s)
  NV=$(grep -c "^VIOLATION" "/tmp/mv_${NAME}_$C.log")
  FIRST=$(grep -m1 "detail:" "/tmp/mv_${NAME}_$C.log" | cut -c1-300)
  RES="$RES{\"check\":\"$C\",\"exit\":$RC,\"violations\":$NV,\"seconds\":$((T1-T0)),\"first\":$(/venv/bin/python -c 'import json,sys;print(json.dumps(sys.argv[1]))' "$FIRST")},"
done
git -C /repo worktree remove --force "$WT"
rm -rf /tmp/mv_$NAME.junit.xml /tmp/mv_evidence_$NAME
echo "{\"name\":\"$NAME\",\"demo_clean_exit\":$CLEAN,\"demo_mutant_exit\":$MUT,\"stable_tests\":\"$TESTS\",\"checks\":[${RES%,}]}" | tee "$OUT/result.json"
