"""CrossHair harness for C12: one symbolic step from an arbitrary pre-state.

All scalar module-level globals that functions of the specification generator assign (found by an AST walk of the current
source) are havocked with unconstrained symbolic values -- except the ones the fixed option set determines -- and the
real front-end is run on a concrete block; the specification and sub-block list must equal those of a fresh run."""
import ast
import os
import sys
from typing import List

REPO = os.environ.get("GASOL_REPO", "/repo")
if REPO not in sys.path[:1]:
    sys.path.insert(0, REPO)
import warnings
warnings.filterwarnings("ignore")
import io
import contextlib
import copy

import gasol_asm
import global_params.constants as constants
import sfs_generator.ir_block as ir_block
import sfs_generator.gasol_optimization as G
from argparse import ArgumentParser
from global_params.options import OptimizationParams
from sfs_generator.parser_asm import parse_blocks_from_plain_instructions

OPTION_GLOBALS = {"split_sto", "size_flag", "push_flag", "pop_flag", "revert_flag", "debug", "push0_enabled", "split_block",
                  "non_aliasing_disabled", "mem40_pattern", "extra_dep_info", "extra_opt_info", "context_info"}

BLOCKS = os.environ.get("C12_BLOCKS", "PUSH 3 PUSH 4 ADD SWAP1 POP|PUSH 0 DUP2 ADD PUSH 3 MUL|DUP3 DUP3 MSTORE DUP2 MLOAD DUP1 DUP3 ADD|DUP2 DUP2 SSTORE DUP1 SLOAD PUSH 1 ADD|"
                        "PUSH 20 DUP2 KECCAK256 DUP2 MLOAD LT ISZERO|CALLER PUSH ffffffffffffffffffffffffffffffffffffffff AND DUP2 EQ|"
                        "DUP1 DUP3 LOG1 PUSH 5 DUP2 MSTORE|PUSH 1 DUP2 SHL DUP3 MUL|DUP2 DUP2 SUB ISZERO ISZERO|DUP2 DUP2 ADD SWAP2 SUB SSTORE|"
                        "DUP2 DUP2 MUL DUP1 DUP4 MSTORE PUSH 1 ASSIGNIMMUTABLE 5").split("|")


def _params():
    ap = ArgumentParser()
    gasol_asm.options_gasol(ap)
    p = OptimizationParams()
    p.parse_args(ap.parse_args(["x.txt", "-bl", "-greedy"] + os.environ.get("C12_FLAGS", "").split()))
    gasol_asm.init()
    if p.split_storage:
        constants.append_store_instructions_to_split()
    constants._set_push0(p.push0)
    return p


P = _params()


def _assigned_globals(mod_path):
    with open(mod_path) as f:
        tree = ast.parse(f.read())
    names = set()
    for fn in ast.walk(tree):
        if isinstance(fn, ast.FunctionDef):
            for n in ast.walk(fn):
                if isinstance(n, ast.Global):
                    names.update(n.names)
    return sorted(names)


def _run(i):
    b = parse_blocks_from_plain_instructions(BLOCKS[i], "c12", "c12")[0]
    with contextlib.redirect_stdout(io.StringIO()):
        d, subs = gasol_asm.compute_original_sfs_with_simplifications(b, P)
    return copy.deepcopy(d["syrup_contract"]), copy.deepcopy(subs)


# CrossHair forbids file writes while tracing: the three writes are debug dumps nothing reads back
ir_block.write_rbr = lambda *a, **k: None


class _NullFile(io.StringIO):
    def __enter__(self):
        return self

    def __exit__(self, *a):
        return False


_real_open = open


def _open(path, mode="r", *a, **k):
    if "w" in mode or "a" in mode:
        return _NullFile()
    return _real_open(path, mode, *a, **k)


G.open = _open


class _NoMkdir:
    def __getattr__(self, name):
        return getattr(os, name)

    def makedirs(self, *a, **k):
        return None

    def mkdir(self, *a, **k):
        return None

    def listdir(self, *a, **k):
        import global_params.paths as paths
        return ["jsons", "disasms", "smt_encoding", "solutions", paths.gasol_folder]


G.os = _NoMkdir()
ir_block.os = _NoMkdir()

BASE = [_run(i) for i in range(len(BLOCKS))]        # fresh-interpreter baselines (also warms networkx natively)

TARGETS = []
for modname, mod in (("gasol_optimization", G), ("ir_block", ir_block)):
    for g in _assigned_globals(os.path.join(REPO, "sfs_generator", modname + ".py")):
        if g in OPTION_GLOBALS or not hasattr(mod, g):
            continue
        v = getattr(mod, g)
        if isinstance(v, bool):
            TARGETS.append((mod, g, "bool"))
        elif isinstance(v, int):
            TARGETS.append((mod, g, "int"))
        elif isinstance(v, str):
            TARGETS.append((mod, g, "str"))
# list-valued globals whose elements are strings (caches of expression keys, rule names, instruction names)
LISTS = []
for modname, mod in (("gasol_optimization", G), ("ir_block", ir_block)):
    for g in _assigned_globals(os.path.join(REPO, "sfs_generator", modname + ".py")):
        if g in OPTION_GLOBALS or not hasattr(mod, g):
            continue
        v = getattr(mod, g)
        if isinstance(v, list) and all(isinstance(x, str) for x in v) and not g.startswith("opcodes"):
            LISTS.append((mod, g, "list"))
# dictionary-valued globals, typed after the shapes they really take: a native pre-run over blocks chosen to fill them
# (repeated commutative terms, immutables, stores of computed values) records the key/value types of every dict global
SHAPE_BLOCKS = ["DUP2 DUP2 ADD SWAP2 ADD", "DUP2 DUP2 ADD SWAP2 SUB SSTORE", "PUSH 1 ASSIGNIMMUTABLE 5 CALLER", "PUSH 5 PUSH 3 PUSH 2 ADDMOD DUP2 MUL",
                "DUP3 DUP3 MSTORE DUP2 MLOAD DUP1 DUP3 ADD", "PUSH ff NOT DUP2 AND", "DUP2 DUP2 SSTORE DUP1 SLOAD PUSH 1 ADD"]
_shapes = {}
for _t in SHAPE_BLOCKS:
    try:
        _b = parse_blocks_from_plain_instructions(_t, "c12s", "c12s")[0]
        with contextlib.redirect_stdout(io.StringIO()):
            gasol_asm.compute_original_sfs_with_simplifications(_b, P)
    except Exception:
        pass
    for modname, mod in (("gasol_optimization", G), ("ir_block", ir_block)):
        for g in _assigned_globals(os.path.join(REPO, "sfs_generator", modname + ".py")):
            v = getattr(mod, g, None)
            if isinstance(v, dict) and g not in OPTION_GLOBALS and not g.startswith("opcodes"):
                for k, x in v.items():
                    _shapes.setdefault((modname, g), set()).add((type(k).__name__, type(x).__name__))
DICTS_SS, DICTS_SI, DICTS_IS = [], [], []
for (modname, g), sh in sorted(_shapes.items()):
    mod = G if modname == "gasol_optimization" else ir_block
    if sh <= {("str", "str")}:
        DICTS_SS.append((mod, g, "dict"))
    elif sh <= {("str", "int")}:
        DICTS_SI.append((mod, g, "dict"))
    elif sh <= {("int", "str")}:
        DICTS_IS.append((mod, g, "dict"))
ND = (len(DICTS_SS), len(DICTS_SI), len(DICTS_IS))
DWHICH = int(os.environ.get("C12_DWHICH", "0"))
BASE = [_run(i) for i in range(len(BLOCKS))]        # again: the shape probe must not leave anything behind that matters
NL = len(LISTS)
WHICH = int(os.environ.get("C12_WHICH", "0")) % max(1, NL)
INTS = [t for t in TARGETS if t[2] == "int"]
BOOLS = [t for t in TARGETS if t[2] == "bool"]
STRS = [t for t in TARGETS if t[2] == "str"]
NI, NB, NS = len(INTS), len(BOOLS), len(STRS)
NBLK = len(BLOCKS)


def _havoc_and_run(blk, ints, bools, strs):
    saved = [(m, g, getattr(m, g)) for m, g, _ in TARGETS]
    try:
        for (m, g, _), v in zip(INTS, ints):
            setattr(m, g, v)
        for (m, g, _), v in zip(BOOLS, bools):
            setattr(m, g, v)
        for (m, g, _), v in zip(STRS, strs):
            setattr(m, g, v)
        return _run(blk)
    finally:
        for m, g, v in saved:
            setattr(m, g, v)


def independent(blk: int, ints: List[int], bools: List[bool], strs: List[str]) -> bool:
    """
    pre: 0 <= blk < NBLK
    pre: len(ints) == NI and len(bools) == NB and len(strs) == NS
    post: _
    """
    return _havoc_and_run(blk, ints, bools, strs) == BASE[blk]


def _havoc_lists_and_run(blk, which, items):
    m, g, _ = LISTS[which]
    saved = getattr(m, g)
    try:
        setattr(m, g, list(items))
        return _run(blk)
    finally:
        setattr(m, g, saved)


def independent_of_lists(blk: int, which: int, items: List[str]) -> bool:
    """
    one string-list global at a time holds an arbitrary list of at most two arbitrary strings
    pre: 0 <= blk < NBLK
    pre: which == WHICH
    pre: len(items) <= 1
    post: _
    """
    return _havoc_lists_and_run(blk, which, items) == BASE[blk]


def independent_reach(blk: int, ints: List[int], bools: List[bool], strs: List[str]) -> bool:
    """
    reachability twin: must be refuted
    pre: 0 <= blk < NBLK
    pre: len(ints) == NI and len(bools) == NB and len(strs) == NS
    post: not _
    """
    return _havoc_and_run(blk, ints, bools, strs) == BASE[blk]


def _havoc_dict_and_run(blk, table, which, items):
    m, g, _ = table[which]
    saved = getattr(m, g)
    try:
        setattr(m, g, dict(items))
        return _run(blk)
    finally:
        setattr(m, g, saved)


from typing import Dict


def independent_of_dict_ss(blk: int, which: int, items: Dict[str, str]) -> bool:
    """
    one str->str dictionary global at a time holds an arbitrary dictionary with at most one entry
    pre: 0 <= blk < NBLK
    pre: which == DWHICH and which < ND[0]
    pre: len(items) <= 1
    post: _
    """
    return _havoc_dict_and_run(blk, DICTS_SS, which, items) == BASE[blk]


def independent_of_dict_si(blk: int, which: int, items: Dict[str, int]) -> bool:
    """
    pre: 0 <= blk < NBLK
    pre: which == DWHICH and which < ND[1]
    pre: len(items) <= 1
    post: _
    """
    return _havoc_dict_and_run(blk, DICTS_SI, which, items) == BASE[blk]


def independent_of_dict_is(blk: int, which: int, items: Dict[int, str]) -> bool:
    """
    pre: 0 <= blk < NBLK
    pre: which == DWHICH and which < ND[2]
    pre: len(items) <= 1
    post: _
    """
    return _havoc_dict_and_run(blk, DICTS_IS, which, items) == BASE[blk]
