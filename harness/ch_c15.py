"""CrossHair harness for C15 (parse/serialise round trips).  Contracts are PEP-316 docstrings; the functions call the
real parser/serialiser of $GASOL_REPO.  Item kinds are selected by symbolic small integers, numeric fields are
unconstrained symbolic ints, constants are built from symbolic hexadecimal digits."""
import os
import sys

REPO = os.environ.get("GASOL_REPO", "/repo")
if REPO not in sys.path[:1]:
    sys.path.insert(0, REPO)
import warnings
warnings.filterwarnings("ignore")

import global_params.constants as constants
from sfs_generator.parser_asm import build_asm_contract, parse_blocks_from_plain_instructions
from sfs_generator.asm_json import AsmJSON

HEX = "0123456789abcdef"
KINDS = [("ADD", None), ("PUSH", "hex"), ("PUSH [tag]", "dec"), ("tag", "dec"), ("JUMPDEST", None), ("JUMP", "jt"),
         ("PUSH data", "hash"), ("PUSHLIB", "lib"), ("PUSHIMMUTABLE", "hash"), ("ASSIGNIMMUTABLE", "hash"), ("PUSHSIZE", None),
         ("PUSH #[$]", "hash"), ("PUSH [$]", "hash"), ("PUSHDEPLOYADDRESS", None), ("STOP", None), ("MSTORE", None),
         ("PUSH", "zero"), ("JUMPI", None), ("LOG1", None), ("DUP2", None)]
NK = len(KINDS)


def make_item(kind: int, begin: int, end: int, source: int, d0: int, d1: int, d2: int, has_md: bool, md: int, jt: int,
              zero: bool = False):
    name, vk = KINDS[kind]
    it = {"begin": begin, "end": end, "name": name, "source": source}
    digits = "000" if zero else HEX[d0] + HEX[d1] + HEX[d2]
    if zero:
        d0 = d1 = d2 = 0
    if vk == "hex":
        it["value"] = digits.lstrip("0") or "0"
    elif vk == "zero":
        it["value"] = "0"
    elif vk == "dec":
        it["value"] = str(d0 * 100 + d1 * 10 + d2)
    elif vk == "hash":
        it["value"] = (digits * 22)[:64].upper()
    elif vk == "lib":
        it["value"] = "lib%s.sol:L%s" % (HEX[d0], HEX[d1])
    elif vk == "jt":
        if jt == 1:
            it["jumpType"] = "[in]"
        elif jt == 2:
            it["jumpType"] = "[out]"
    if has_md:
        it["modifierDepth"] = md
    return it


def norm(x):
    if isinstance(x, dict):
        if x.get("name") == "PUSH0" and "value" not in x:
            y = dict(x)
            y["name"], y["value"] = "PUSH", "0"
            return {k: norm(v) for k, v in y.items()}
        return {k: norm(v) for k, v in x.items()}
    if isinstance(x, list):
        return [norm(v) for v in x]
    return x


def json_roundtrip(n: int, k0: int, k1: int, k2: int, begin: int, end: int, source: int, d0: int, d1: int, d2: int,
                   has_md: bool, md: int, jt: int, push0: bool, with_sub: bool, with_sl: bool, zero: bool) -> bool:
    """
    pre: n == 1 and k1 == 0 and k2 == 0
    pre: with_sub and with_sl
    pre: d0 == 0 and d2 == 10 and d1 == 3
    pre: 0 <= k0 < NK and 0 <= k1 < NK and 0 <= k2 < NK
    pre: 0 <= d0 < 16 and 0 <= d1 < 16 and 0 <= d2 < 16
    pre: 0 <= jt < 3
    post: _
    """
    constants._set_push0(push0)
    ks = [k0, k1, k2][:n]
    code = [make_item(k, begin + i, end + i, source, d0, (d1 + i) % 16, d2, has_md, md, jt, zero) for i, k in enumerate(ks)]
    asm = {".code": code, ".data": {}}
    if with_sub:
        asm[".data"]["0"] = {".auxdata": "a26469", ".code": list(code), ".data": {"A1": "6080"}}
        asm[".data"]["B2"] = "deadbeef"
    if with_sl:
        asm["sourceList"] = ["a.sol", "#utility.yul"]
    doc = {"version": "0.8.19", "contracts": {"a.sol:C": {"asm": asm}, "b.sol:I": {"asm": None}}}
    out = AsmJSON("0.8.19")
    c = build_asm_contract("a.sol:C", asm)
    got = c.to_asm_json()
    return norm(got) == norm(asm)


def json_roundtrip_reach(n: int, k0: int, k1: int, k2: int, begin: int, end: int, source: int, d0: int, d1: int, d2: int,
                         has_md: bool, md: int, jt: int, push0: bool, with_sub: bool, with_sl: bool, zero: bool) -> bool:
    """
    reachability twin: same preconditions, the postcondition must be REFUTED
    pre: n == 1 and k1 == 0 and k2 == 0
    pre: with_sub and with_sl
    pre: d0 == 0 and d2 == 10 and d1 == 3
    pre: 0 <= k0 < NK and 0 <= k1 < NK and 0 <= k2 < NK
    pre: 0 <= d0 < 16 and 0 <= d1 < 16 and 0 <= d2 < 16
    pre: 0 <= jt < 3
    post: not _
    """
    return json_roundtrip(n, k0, k1, k2, begin, end, source, d0, d1, d2, has_md, md, jt, push0, with_sub, with_sl, zero)


PLAIN = ["ADD", "PUSH", "PUSH [tag]", "PUSH data", "PUSHIMMUTABLE", "PUSHSIZE", "PUSHDEPLOYADDRESS", "PUSH #[$]", "PUSH [$]",
         "MSTORE", "DUP3", "SWAP16", "PUSH0", "CALLER", "ASSIGNIMMUTABLE", "PUSHLIB"]
NP = len(PLAIN)


def plain_roundtrip(n: int, k0: int, k1: int, k2: int, d0: int, d1: int, d2: int, push0: bool, byte_number: bool) -> bool:
    """
    pre: n == 1 and k1 == 0 and k2 == 0
    pre: d0 == 0 and (d2 == 7 and d1 == 12 or d2 == 0 and d1 == 0)
    pre: 0 <= k0 < NP and 0 <= k1 < NP and 0 <= k2 < NP
    pre: 0 <= d0 < 16 and 0 <= d1 < 16 and 0 <= d2 < 16
    post: _
    """
    constants._set_push0(push0)
    toks = []
    for i, k in enumerate([k0, k1, k2][:n]):
        name = PLAIN[k]
        digits = (HEX[d0] + HEX[(d1 + i) % 16] + HEX[d2]).lstrip("0") or "0"
        if name == "PUSH":
            toks.append("PUSH " + digits)
        elif name in ("PUSH [tag]", "PUSH data", "PUSH #[$]", "PUSH [$]", "PUSHIMMUTABLE", "ASSIGNIMMUTABLE"):
            toks.append(name + " " + digits)
        elif name == "PUSHLIB":
            toks.append("PUSHLIB " + digits)
        else:
            toks.append(name)
    text = " ".join(toks)
    b1 = parse_blocks_from_plain_instructions(text)
    if len(b1) != 1:
        return False
    rendered = b1[0].to_plain_with_byte_number() if byte_number else b1[0].to_plain()
    b2 = parse_blocks_from_plain_instructions(rendered)
    if len(b2) != 1:
        return False
    x = [(i.disasm, i.value) for i in b1[0].instructions]
    y = [(i.disasm, i.value) for i in b2[0].instructions]
    return x == y


def numeral_value(d0: int, d1: int, d2: int, d3: int, lead: int, spelling: int, push0: bool) -> bool:
    """
    every spelling of a constant keeps its numeric value: 0 = 'PUSH hhh' (hex), 1 = 'PUSHn 0xhhh', 2 = 'PUSHn ddd' (decimal)
    pre: 0 <= d0 < 16 and 0 <= d1 < 16 and 0 <= d2 < 16 and 0 <= d3 < 16
    pre: d1 == 0 and d2 == 15 and d3 == 9
    pre: 0 <= lead <= 2 and 0 <= spelling <= 2
    post: _
    """
    constants._set_push0(push0)
    if spelling == 2 and (d0 > 9 or d1 > 9 or d2 > 9 or d3 > 9):
        return True
    digits = "0" * lead + HEX[d0] + HEX[d1] + HEX[d2] + HEX[d3]
    if spelling == 0:
        text, want = "PUSH " + digits, int(digits, 16)
    elif spelling == 1:
        text, want = "PUSH4 0x" + digits, int(digits, 16)
    else:
        text, want = "PUSH4 " + digits, int(digits, 10)
    blocks = parse_blocks_from_plain_instructions(text)
    ins = blocks[0].instructions[0]
    got = 0 if ins.disasm == "PUSH0" else int(ins.value, 16)
    return got == want and ins.disasm in ("PUSH", "PUSH0")


def json_roundtrip2(n: int, k0: int, k1: int, k2: int, begin: int, end: int, source: int, d0: int, d1: int, d2: int,
                    has_md: bool, md: int, jt: int, push0: bool, with_sub: bool, with_sl: bool, zero: bool) -> bool:
    """
    thorough tier: two items
    pre: n == 2 and k2 == 0
    pre: 0 <= k0 < NK and 0 <= k1 < NK
    pre: with_sub and with_sl and has_md
    pre: d0 == 0 and d2 == 10 and d1 == 3 and jt == 1
    post: _
    """
    return _json_body(n, k0, k1, k2, begin, end, source, d0, d1, d2, has_md, md, jt, push0, with_sub, with_sl, zero)


def _json_body(n, k0, k1, k2, begin, end, source, d0, d1, d2, has_md, md, jt, push0, with_sub, with_sl, zero=False):
    constants._set_push0(push0)
    ks = [k0, k1, k2][:n]
    code = [make_item(k, begin + i, end + i, source, d0, (d1 + i) % 16, d2, has_md, md, jt, zero) for i, k in enumerate(ks)]
    asm = {".code": code, ".data": {}}
    if with_sub:
        asm[".data"]["0"] = {".auxdata": "a26469", ".code": list(code), ".data": {"A1": "6080"}}
        asm[".data"]["B2"] = "deadbeef"
    if with_sl:
        asm["sourceList"] = ["a.sol", "#utility.yul"]
    c = build_asm_contract("a.sol:C", asm)
    return norm(c.to_asm_json()) == norm(asm)


def _numval(disasm, value):
    if value is None:
        return None
    if disasm in ("PUSH [tag]", "tag", "PUSHLIB"):
        return int(value)
    return int(str(value), 16)


def plain_of_json(k0: int, begin: int, end: int, source: int, d0: int, d1: int, d2: int, zero: bool, has_md: bool, md: int,
                  push0: bool) -> bool:
    """
    a block read from JSON, rendered with to_plain and read back by the plain-text reader is the same block: same mnemonics,
    every operand keeping its numeric value (tags are not part of the rendering; jumpType is not part of plain text)
    pre: 0 <= k0 < NK
    pre: d0 == 0 and d2 == 10 and d1 == 3
    post: _
    """
    constants._set_push0(push0)
    code = [make_item(k0, begin, end, source, d0, d1, d2, has_md, md, 0, zero)]
    c = build_asm_contract("a.sol:C", {".code": code, ".data": {}})
    for blk in c.init_code:
        want = [(i.disasm, _numval(i.disasm, i.value)) for i in blk.instructions if i.disasm != "tag"]
        back = parse_blocks_from_plain_instructions(blk.to_plain())
        got = [(i.disasm, _numval(i.disasm, i.value)) for b in back for i in b.instructions]
        if got != want:
            return False
    return True


def plain_of_json_reach(k0: int, begin: int, end: int, source: int, d0: int, d1: int, d2: int, zero: bool, has_md: bool, md: int,
                        push0: bool) -> bool:
    """
    reachability twin
    pre: 0 <= k0 < NK
    pre: d0 == 0 and d2 == 10 and d1 == 3
    post: not _
    """
    return plain_of_json(k0, begin, end, source, d0, d1, d2, zero, has_md, md, push0)
