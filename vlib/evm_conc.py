"""Concrete twin of vlib.evm_smt: a plain interpreter over Python ints, written separately from the encoder.

All sources of state are behind an *oracle* (initial stack, base memory, base storage, environment, havoc after
external calls, hash function), so the twin can replay a z3 model (ModelOracle) or run on a pseudo-random state
(HashOracle)."""
import hashlib
from .keccak import keccak256

M = 1 << 256
MASK = M - 1


def sgn(x):
    return x - M if x >> 255 else x


class HashOracle:
    """deterministic pseudo-random total state derived from a seed"""

    def __init__(self, seed, small=True):
        self.seed = seed
        self.small = small

    def _h(self, *k):
        return int.from_bytes(hashlib.sha256(repr((self.seed,) + k).encode()).digest(), 'big')

    def _word(self, *k):
        h = self._h(*k)
        sel = h % 8
        boundary = [0, 1, 2, 31, 32, 255, 256, (1 << 255), MASK, MASK - 1, (1 << 160) - 1, (1 << 255) - 1]
        if sel < 3:
            return boundary[(h >> 8) % len(boundary)]
        if sel < 6:
            return (h >> 16) % 300
        return (h >> 16) & MASK

    INPUT_BOUNDARY = [MASK, 0, 1, MASK - 1, 2, 1 << 255, 32, 0x80, (1 << 255) - 1, 255, 256, 31, 3, (1 << 160) - 1,
                      (1 << 255) + 1, MASK - 31, 0xa0, 33]

    def inp(self, i):
        # the first seeds walk every input through the boundary list (input i is offset so that pairs vary too)
        B = self.INPUT_BOUNDARY
        if isinstance(self.seed, int) and 0 <= self.seed < 2 * len(B):
            return B[(self.seed + i * (5 + self.seed // len(B))) % len(B)]
        return self._word('in', i)

    def const(self, key):
        v = self._word('c', key)
        if key[0] in ("ADDRESS", "ORIGIN", "CALLER", "COINBASE"):
            v &= (1 << 160) - 1
        return v

    def func(self, name, args):
        v = self._word('f', name, tuple(args))
        if name.startswith("copy_") or name.startswith("havoc_mem"):
            v &= 0xff
        return v

    def mem_base(self, gen, addr):
        return self._h('m', gen, addr) & 0xff

    def sto_base(self, gen, key):
        return self._word('s', gen, key)

    def keccak(self, data):
        return keccak256(data)


class Halt(Exception):
    pass


class CState:
    def __init__(self):
        self.stack = []
        self.mem_gen = "init"
        self.mem = {}
        self.sto_gen = "init"
        self.sto = {}
        self.events = []
        self.terminal = None
        self.epoch = 0
        self.occ = {}
        self.msize = None


class OutOfBounds(Exception):
    """an offset or length >= 2^32: outside the assumption on states"""


def run(instrs, n_inputs, oracle, limit=1 << 32, max_len=1 << 16):
    st = CState()
    S = st.stack
    for i in range(n_inputs - 1, -1, -1):
        S.append(oracle.inp(i) & MASK)

    def pop():
        return S.pop()

    def rd(addr):
        if addr in st.mem:
            return st.mem[addr]
        return oracle.mem_base(st.mem_gen, addr) & 0xff

    def chk(*vals):
        for v in vals:
            if v >= limit:
                raise OutOfBounds()

    def rdrange(off, ln):
        chk(off, ln)
        if ln > max_len:
            raise OutOfBounds()
        return bytes(rd(off + i) for i in range(ln))

    st.msize = oracle.const(("MSIZE0",))

    def touch(off, ln):
        if ln:
            up = ((off + ln + 31) & (MASK ^ 31)) & MASK
            if up > st.msize:
                st.msize = up

    def occ(name):
        k = st.occ.get(name, 0)
        st.occ[name] = k + 1
        return k

    def external(k, writes=None):
        st.epoch += 1
        st.sto_gen = "ev%d" % k
        st.sto = {}
        if writes is not None:
            ooff, oln = writes
            wl = oracle.const(("havoc_len", k))
            if wl > oln:
                wl = oln
            if wl > max_len:
                raise OutOfBounds()
            for i in range(wl):
                st.mem[ooff + i] = oracle.func("havoc_mem!%d" % k, [i]) & 0xff

    for name, value in instrs:
        assert st.terminal is None
        if name in ("tag", "JUMPDEST"):
            continue
        if name == "PUSH":
            S.append(int(value, 16) & MASK)
        elif name == "PUSH0":
            S.append(0)
        elif name in ("PUSH [tag]", "PUSH data", "PUSHIMMUTABLE", "PUSHLIB", "PUSH #[$]", "PUSH [$]"):
            from .evm_smt import pseudo_key
            S.append(oracle.const(pseudo_key(name, value)))
        elif name in ("PUSHSIZE", "PUSHDEPLOYADDRESS"):
            S.append(oracle.const((name,)))
        elif name.startswith("DUP"):
            S.append(S[-int(name[3:])])
        elif name.startswith("SWAP"):
            k = int(name[4:])
            S[-1], S[-1 - k] = S[-1 - k], S[-1]
        elif name == "POP":
            pop()
        elif name == "ADD":
            a, b = pop(), pop()
            S.append((a + b) & MASK)
        elif name == "SUB":
            a, b = pop(), pop()
            S.append((a - b) & MASK)
        elif name == "MUL":
            a, b = pop(), pop()
            S.append((a * b) & MASK)
        elif name == "DIV":
            a, b = pop(), pop()
            S.append(0 if b == 0 else a // b)
        elif name == "SDIV":
            a, b = sgn(pop()), sgn(pop())
            if b == 0:
                S.append(0)
            else:
                q = abs(a) // abs(b)
                if (a < 0) != (b < 0):
                    q = -q
                S.append(q & MASK)
        elif name == "MOD":
            a, b = pop(), pop()
            S.append(0 if b == 0 else a % b)
        elif name == "SMOD":
            a, b = sgn(pop()), sgn(pop())
            if b == 0:
                S.append(0)
            else:
                r = abs(a) % abs(b)
                S.append((-r if a < 0 else r) & MASK)
        elif name == "ADDMOD":
            a, b, n = pop(), pop(), pop()
            S.append(0 if n == 0 else (a + b) % n)
        elif name == "MULMOD":
            a, b, n = pop(), pop(), pop()
            S.append(0 if n == 0 else (a * b) % n)
        elif name == "EXP":
            a, b = pop(), pop()
            S.append(pow(a, b, M))
        elif name == "SIGNEXTEND":
            a, b = pop(), pop()
            if a < 31:
                bit = 8 * a + 7
                low = b & ((1 << (bit + 1)) - 1)
                S.append((low | (MASK ^ ((1 << (bit + 1)) - 1))) if (low >> bit) & 1 else low)
            else:
                S.append(b)
        elif name == "LT":
            a, b = pop(), pop()
            S.append(int(a < b))
        elif name == "GT":
            a, b = pop(), pop()
            S.append(int(a > b))
        elif name == "SLT":
            a, b = sgn(pop()), sgn(pop())
            S.append(int(a < b))
        elif name == "SGT":
            a, b = sgn(pop()), sgn(pop())
            S.append(int(a > b))
        elif name == "EQ":
            a, b = pop(), pop()
            S.append(int(a == b))
        elif name == "ISZERO":
            S.append(int(pop() == 0))
        elif name == "AND":
            a, b = pop(), pop()
            S.append(a & b)
        elif name == "OR":
            a, b = pop(), pop()
            S.append(a | b)
        elif name == "XOR":
            a, b = pop(), pop()
            S.append(a ^ b)
        elif name == "NOT":
            S.append(MASK ^ pop())
        elif name == "BYTE":
            i, x = pop(), pop()
            S.append((x >> (8 * (31 - i))) & 0xff if i < 32 else 0)
        elif name == "SHL":
            s, v = pop(), pop()
            S.append((v << s) & MASK if s < 256 else 0)
        elif name == "SHR":
            s, v = pop(), pop()
            S.append(v >> s if s < 256 else 0)
        elif name == "SAR":
            s, v = pop(), sgn(pop())
            S.append((v >> s) & MASK if s < 256 else (MASK if v < 0 else 0))
        elif name in ("ADDRESS", "ORIGIN", "CALLER", "CALLVALUE", "CALLDATASIZE", "CODESIZE", "GASPRICE", "COINBASE",
                      "TIMESTAMP", "NUMBER", "DIFFICULTY", "PREVRANDAO", "GASLIMIT", "CHAINID", "BASEFEE"):
            S.append(oracle.const((("DIFFICULTY" if name == "PREVRANDAO" else name),)))
        elif name == "SELFBALANCE":
            S.append(oracle.func("BALANCE!%d" % st.epoch, [oracle.const(("ADDRESS",))]))
        elif name == "RETURNDATASIZE":
            S.append(oracle.const((name, st.epoch)))
        elif name in ("BALANCE", "EXTCODESIZE", "EXTCODEHASH"):
            S.append(oracle.func("%s!%d" % (name, st.epoch), [pop()]))
        elif name in ("CALLDATALOAD", "BLOCKHASH"):
            S.append(oracle.func(name, [pop()]))
        elif name == "GAS":
            S.append(oracle.const(("GAS", occ("GAS"))))
        elif name == "MSIZE":
            S.append(st.msize)
        elif name == "MLOAD":
            off = pop()
            chk(off)
            touch(off, 32)
            S.append(int.from_bytes(bytes(rd(off + i) for i in range(32)), 'big'))
        elif name == "MSTORE":
            off, val = pop(), pop()
            chk(off)
            touch(off, 32)
            for i, b in enumerate(val.to_bytes(32, 'big')):
                st.mem[off + i] = b
        elif name == "MSTORE8":
            off, val = pop(), pop()
            chk(off)
            touch(off, 1)
            st.mem[off] = val & 0xff
        elif name == "SLOAD":
            k = pop()
            S.append(st.sto[k] if k in st.sto else oracle.sto_base(st.sto_gen, k))
        elif name == "SSTORE":
            k, v = pop(), pop()
            st.sto[k] = v
        elif name in ("KECCAK256", "SHA3"):
            off, ln = pop(), pop()
            touch(off, ln)
            S.append(oracle.keccak(rdrange(off, ln)))
        elif name.startswith("LOG") and name[3:].isdigit():
            off, ln = pop(), pop()
            topics = [pop() for _ in range(int(name[3:]))]
            st.events.append((name, topics + [ln], rdrange(off, ln)))
        elif name in ("CALL", "CALLCODE", "DELEGATECALL", "STATICCALL"):
            gas, addr = pop(), pop()
            val = [pop()] if name in ("CALL", "CALLCODE") else []
            ioff, iln, ooff, oln = pop(), pop(), pop(), pop()
            chk(ioff, iln, ooff, oln)
            k = len(st.events)
            st.events.append((name, [gas, addr] + val + [iln, ooff, oln], rdrange(ioff, iln)))
            external(k, (ooff, oln))
            S.append(oracle.const(("havoc_ret", k)))
        elif name in ("CREATE", "CREATE2"):
            val, off, ln = pop(), pop(), pop()
            salt = [pop()] if name == "CREATE2" else []
            k = len(st.events)
            st.events.append((name, [val, ln] + salt, rdrange(off, ln)))
            external(k)
            S.append(oracle.const(("havoc_ret", k)))
        elif name in ("CALLDATACOPY", "CODECOPY", "RETURNDATACOPY", "EXTCODECOPY"):
            addr = [pop()] if name == "EXTCODECOPY" else []
            dst, src, ln = pop(), pop(), pop()
            chk(dst, ln)
            if ln > max_len:
                raise OutOfBounds()
            st.events.append((name, addr + [dst, src, ln], None))
            fname = "copy_%s!%d" % (name, st.epoch if name in ("RETURNDATACOPY", "EXTCODECOPY") else 0)
            for i in range(ln):
                st.mem[dst + i] = oracle.func(fname, addr + [src, i]) & 0xff
        elif name == "ASSIGNIMMUTABLE":
            a, b = pop(), pop()
            k = len(st.events)
            st.events.append(("ASSIGNIMMUTABLE " + str(value), [a, b], None))
            st.mem_gen = "ev%d" % k
            st.mem = {}
        elif name in ("RETURN", "REVERT"):
            off, ln = pop(), pop()
            st.events.append((name, [ln], rdrange(off, ln)))
            st.terminal = name
        elif name in ("STOP", "INVALID", "ASSERTFAIL"):
            st.events.append((name, [], None))
            st.terminal = name
        elif name in ("SELFDESTRUCT", "SUICIDE"):
            st.events.append(("SELFDESTRUCT", [pop()], None))
            st.terminal = "SELFDESTRUCT"
        elif name == "JUMP":
            st.events.append(("JUMP", [pop()], None))
            st.terminal = "JUMP"
        elif name == "JUMPI":
            d, c = pop(), pop()
            st.events.append(("JUMPI", [d, int(c != 0)], None))
            st.terminal = "JUMPI"
        else:
            raise ValueError("twin: unsupported " + name)
    return st


def observable_difference(a, b, oracle):
    """None if the two concrete final states are observationally equal, else a description"""
    if len(a.events) != len(b.events):
        return "number of events differs"
    for k, (x, y) in enumerate(zip(a.events, b.events)):
        if x != y:
            return "event %d differs: %r vs %r" % (k, _short(x), _short(y))
    if a.terminal != b.terminal:
        return "terminal differs"
    cont = a.terminal in (None, "JUMP", "JUMPI")
    if cont:
        if a.stack != b.stack:
            return "stack differs: %s vs %s" % ([hex(v) for v in reversed(a.stack)], [hex(v) for v in reversed(b.stack)])
        if a.mem_gen != b.mem_gen:
            return "memory generation differs"
        for addr in sorted(set(a.mem) | set(b.mem)):
            va = a.mem[addr] if addr in a.mem else oracle.mem_base(a.mem_gen, addr) & 0xff
            vb = b.mem[addr] if addr in b.mem else oracle.mem_base(b.mem_gen, addr) & 0xff
            if va != vb:
                return "memory byte %#x differs: %#x vs %#x" % (addr, va, vb)
    if cont or a.terminal in ("RETURN", "STOP", "SELFDESTRUCT"):
        if a.sto_gen != b.sto_gen:
            return "storage generation differs"
        for k in sorted(set(a.sto) | set(b.sto)):
            va = a.sto[k] if k in a.sto else oracle.sto_base(a.sto_gen, k)
            vb = b.sto[k] if k in b.sto else oracle.sto_base(b.sto_gen, k)
            if va != vb:
                return "storage slot %#x differs: %#x vs %#x" % (k, va, vb)
    return None


def _short(ev):
    op, operands, data = ev
    return (op, [hex(o) for o in operands], data.hex()[:80] if data is not None else None)
