"""E2 -- semantics of a stack/memory specification (SFS dictionary) under a *symbolic schedule*.

Every memory/storage relevant instruction m gets an integer position p_m; the positions are distinct and constrained by
the declared dependencies and by producer-before-consumer data flow.  A load reads, byte by byte, from the store with the
greatest position below its own that covers the byte.  Load outputs are fresh variables tied to their defining term
by equations, so cyclic-looking term definitions stay well founded (the order guards make them so)."""
import z3
from . import evm_smt as E

MEM_STORES = {"MSTORE", "MSTORE8"}
MEM_READS = {"MLOAD", "KECCAK256", "SHA3"}
STO_STORES = {"SSTORE"}
STO_READS = {"SLOAD"}
RELEVANT = MEM_STORES | MEM_READS | STO_STORES | STO_READS


class SpecError(Exception):
    """the specification is not well formed (dangling variable, unknown instruction, ...)"""


class SpecSem:
    def __init__(self, ctx, sfs, extra_order=None):
        self.ctx = ctx
        self.sfs = sfs
        self.ops = E.Ops(ctx)
        self.instrs = list(sfs["user_instrs"])
        self.by_id = {i["id"]: i for i in self.instrs}
        self.producer = {}
        for i in self.instrs:
            for o in i.get("outpt_sk", []):
                if o in self.producer:
                    raise SpecError("variable %s produced twice" % o)
                self.producer[o] = i
        self.src = list(sfs["src_ws"])
        self.val_cache = {}
        self.defs = []                 # definitional equations of load outputs
        self.rel = [i for i in self.instrs if i["disasm"] in RELEVANT]
        self.pos = {i["id"]: z3.Int("p!" + i["id"]) for i in self.rel}
        self.dep_pairs = self._dep_pairs(sfs, extra_order)
        self.flow = self._dataflow()
        self._building = set()

    # ---- ordering -------------------------------------------------------------------------------------------
    def _dep_pairs(self, sfs, extra):
        pairs = []
        for key in ("storage_dependences", "memory_dependences", "dependencies"):
            for pr in sfs.get(key, []) or []:
                if len(pr) == 2 and tuple(pr) not in pairs:
                    pairs.append(tuple(pr))
        for pr in extra or []:
            pairs.append(tuple(pr))
        return pairs

    def _operand_closure(self, instr, seen=None):
        """ids of the instructions whose outputs occur (transitively) in the operands of instr"""
        out = set()
        stack = list(instr["inpt_sk"])
        seenv = set()
        while stack:
            v = stack.pop()
            if not isinstance(v, str) or v in seenv:
                continue
            seenv.add(v)
            p = self.producer.get(v)
            if p is not None:
                out.add(p["id"])
                stack.extend(p["inpt_sk"])
        return out

    def _dataflow(self):
        flow = {}
        for i in self.rel:
            flow[i["id"]] = {x for x in self._operand_closure(i) if x in self.pos}
        return flow

    def admissible(self):
        n = len(self.rel)
        cs = []
        ps = list(self.pos.values())
        for p in ps:
            cs.append(z3.And(p >= 0, p < n))
        if len(ps) > 1:
            cs.append(z3.Distinct(*ps))
        for a, b in self.dep_pairs:
            if a in self.pos and b in self.pos:
                cs.append(self.pos[a] < self.pos[b])
        for b, srcs in self.flow.items():
            for a in srcs:
                cs.append(self.pos[a] < self.pos[b])
        return cs

    def ordered_closure(self):
        """transitive closure of declared dependencies and data flow over relevant ids (set of (a, b): a before b)"""
        ids = list(self.pos)
        before = {i: set() for i in ids}
        for a, b in self.dep_pairs:
            if a in before and b in before:
                before[b].add(a)
        for b, srcs in self.flow.items():
            before[b] |= srcs
        changed = True
        while changed:
            changed = False
            for b in ids:
                new = set()
                for a in before[b]:
                    new |= before[a]
                if not new <= before[b]:
                    before[b] |= new
                    changed = True
        return {(a, b) for b in ids for a in before[b]}

    # ---- values ---------------------------------------------------------------------------------------------
    def value(self, v):
        if isinstance(v, bool):
            raise SpecError("boolean operand")
        if isinstance(v, int):
            if v < 0 or v > E.MASK:
                raise SpecError("constant %d outside [0, 2^256)" % v)
            return E.BV(v)
        if not isinstance(v, str):
            raise SpecError("operand %r is neither an int nor a variable name" % (v,))
        if v in self.val_cache:
            return self.val_cache[v]
        if v in self.src:
            t = self.ctx.inp(self.src.index(v))
        elif v in self.producer:
            t = self._instr_value(self.producer[v], v)
        else:
            raise SpecError("dangling variable %s" % v)
        self.val_cache[v] = t
        return t

    def _instr_value(self, ins, outvar):
        d = ins["disasm"]
        ctx = self.ctx
        if d in MEM_READS or d in STO_READS:
            # fresh variable + definitional equation (built later, once, in finalize)
            t = z3.BitVec("%sld!%s" % (ctx.prefix, ins["id"]), E.W)
            self.val_cache[outvar] = t
            return t
        args = [self.value(a) for a in ins["inpt_sk"]]
        if d == "PUSH" or d == "PUSH0":
            val = ins.get("value", [0])[0] if d == "PUSH" else 0
            return self.value(int(val))
        if d in E.PSEUDO_PUSH_V:
            return ctx.const(E.pseudo_key(d, ins["value"][0]))
        if d in E.PSEUDO_PUSH_N:
            return ctx.const((d,))
        if d in E.NULLARY_ENV:
            return ctx.const((("DIFFICULTY" if d == "PREVRANDAO" else d),))
        if d == "SELFBALANCE":
            return ctx.func("BALANCE!0", 1)(ctx.const(("ADDRESS",)))
        if d == "RETURNDATASIZE":
            return ctx.const((d, 0))
        if d in E.EPOCH_UNARY:
            return ctx.func("%s!0" % d, 1)(args[0])
        if d in E.PURE_UNARY:
            return ctx.func(d, 1)(args[0])
        if d == "ISZERO":
            return E.b2w(args[0] == E.BV(0))
        if d == "NOT":
            return ~args[0]
        if d in ("ADDMOD", "MULMOD"):
            return self.ops.ternop(d, *args)
        if len(args) == 2:
            return z3.simplify(self.ops.binop(d, args[0], args[1]))
        raise SpecError("instruction %s (%s) has no specification semantics" % (ins["id"], d))

    # ---- memory views ---------------------------------------------------------------------------------------
    def _stores(self, space):
        names = MEM_STORES if space == "mem" else STO_STORES
        return [i for i in self.rel if i["disasm"] in names]

    def _candidates(self, reader_id, space):
        """stores that may precede the reader: those not data-dependent on it"""
        out = []
        for s in self._stores(space):
            if reader_id is not None and reader_id in self.flow[s["id"]]:
                continue
            out.append(s)
        return out

    def mem_view(self, reader_id):
        return _MemView(self, reader_id)

    def sto_read(self, reader_id, key):
        cands = self._candidates(reader_id, "sto")
        r = z3.Select(self.ctx.sto_base("init"), key)
        pl = self.pos[reader_id] if reader_id is not None else None
        info = [(s, self.value(s["inpt_sk"][0]), self.value(s["inpt_sk"][1])) for s in cands]
        for s, k, v in info:
            sel = [k == key]
            if pl is not None:
                sel.append(self.pos[s["id"]] < pl)
            for s2, k2, _ in info:
                if s2 is s:
                    continue
                later = [k2 == key, self.pos[s2["id"]] > self.pos[s["id"]]]
                if pl is not None:
                    later.append(self.pos[s2["id"]] < pl)
                sel.append(z3.Not(z3.And(*later)))
            r = z3.If(z3.And(*sel), v, r)
        return r

    def finalize(self):
        """definitional equations of all load outputs reachable so far (iterates: building one may reach others)"""
        done = set()
        while True:
            todo = [i for i in self.rel if (i["disasm"] in MEM_READS or i["disasm"] in STO_READS)
                    and i["id"] not in done]
            if not todo:
                break
            for ins in todo:
                done.add(ins["id"])
                if not ins.get("outpt_sk"):
                    continue
                var = self.value(ins["outpt_sk"][0])
                d = ins["disasm"]
                if d == "MLOAD":
                    off = self.value(ins["inpt_sk"][0])
                    self.ctx.limit(off)
                    self.defs.append(var == self.mem_view(ins["id"]).word(off))
                elif d == "SLOAD":
                    self.defs.append(var == self.sto_read(ins["id"], self.value(ins["inpt_sk"][0])))
                else:
                    off = self.value(ins["inpt_sk"][0])
                    ln = self.value(ins["inpt_sk"][1])
                    self.ctx.limit(off)
                    self.ctx.limit(ln)
                    self.defs.append(var == E.keccak(self.ctx, self.mem_view(ins["id"]), off, ln))
        for s in self._stores("mem"):
            self.ctx.limit(self.value(s["inpt_sk"][0]))
        return self.defs

    def target_stack(self):
        return [self.value(v) for v in self.sfs["tgt_ws"]]

    def access(self, ins):
        """(space, offset term, length term or None for storage keys, is_store)"""
        d = ins["disasm"]
        a0 = self.value(ins["inpt_sk"][0])
        if d == "MSTORE":
            return "mem", a0, E.BV(32), True
        if d == "MSTORE8":
            return "mem", a0, E.BV(1), True
        if d == "MLOAD":
            return "mem", a0, E.BV(32), False
        if d in ("KECCAK256", "SHA3"):
            return "mem", a0, self.value(ins["inpt_sk"][1]), False
        if d == "SSTORE":
            return "sto", a0, None, True
        return "sto", a0, None, False


class _MemView:
    """memory as seen by one reader (or the final memory when reader_id is None)"""

    def __init__(self, sem, reader_id):
        self.sem = sem
        self.reader = reader_id
        cands = sem._candidates(reader_id, "mem")
        self.info = []
        for s in cands:
            off = sem.value(s["inpt_sk"][0])
            val = sem.value(s["inpt_sk"][1])
            self.info.append((s, off, val))

    def byte(self, addr):
        sem = self.sem
        r = sem.ctx.mem_base("init")(addr)
        pl = sem.pos[self.reader] if self.reader is not None else None

        def covers(s, off, a):
            d = z3.simplify(a - off)
            if s["disasm"] == "MSTORE":
                if E.is_num(d):
                    return z3.BoolVal(E.num(d) < 32), d
                return z3.ULT(d, E.BV(32)), d
            if E.is_num(d):
                return z3.BoolVal(E.num(d) == 0), d
            return a == off, d

        cov = [covers(s, off, addr) for s, off, _ in self.info]
        for idx, (s, off, val) in enumerate(self.info):
            c, d = cov[idx]
            if z3.is_false(c):
                continue
            sel = [c]
            if pl is not None:
                sel.append(sem.pos[s["id"]] < pl)
            for jdx, (s2, off2, _) in enumerate(self.info):
                if jdx == idx:
                    continue
                c2, _ = cov[jdx]
                if z3.is_false(c2):
                    continue
                later = [c2, sem.pos[s2["id"]] > sem.pos[s["id"]]]
                if pl is not None:
                    later.append(sem.pos[s2["id"]] < pl)
                sel.append(z3.Not(z3.And(*later)))
            if s["disasm"] == "MSTORE":
                if E.is_num(d):
                    j = E.num(d)
                    b = z3.Extract(255 - 8 * j, 248 - 8 * j, val)
                else:
                    b = E._sel_byte(val, d)
            else:
                b = z3.Extract(7, 0, val)
            r = z3.If(z3.And(*sel), b, r)
        return r

    def word(self, off):
        return z3.simplify(z3.Concat(*[self.byte(z3.simplify(off + E.BV(i))) for i in range(32)]))
