"""Specification vs block: exists sigma, schedule. admissible(schedule) and eval(spec, schedule, sigma) != exec(block, sigma)."""
import time
import z3

from . import evm_smt as E
from . import evm_conc as C
from . import spec_smt as S
from . import spec_conc as SC
from .equiv import ModelOracle, STATS, _limited_terms, RecordingOracle, model_satisfies, PROBE_SEEDS
from .smt import solve

MAX_RELEVANT = 6


class SpecResult:
    def __init__(self, verdict, reason="", detail=None, seconds=0.0, n_rel=0):
        self.verdict = verdict     # equal | different | unknown | unsupported | malformed-spec | too-large | harness-error
        self.reason = reason
        self.detail = detail or {}
        self.seconds = seconds
        self.n_rel = n_rel

    def __repr__(self):
        return "SpecResult(%s, %s)" % (self.verdict, self.reason)


def _build(sfs, instrs, abstract, fixed_order=None):
    ctx = E.Ctx(abstract=abstract)
    n = len(sfs["src_ws"])
    need, _ = E.needed_depth(instrs)
    # frame rule: the front-end drops stack items that the block leaves untouched at the bottom from both src_ws and
    # tgt_ws; such a specification says "anything deeper is preserved", so the missing inputs are appended unchanged
    frame = max(0, need - n)
    st = E.execute(ctx, instrs, n + frame)
    sem = S.SpecSem(ctx, sfs)
    tgt = sem.target_stack() + [ctx.inp(n + k) for k in range(frame)]
    sem.finalize()
    if len(tgt) != len(st.stack):
        return ctx, st, sem, "final stack height differs (specification %d, block %d)" % (len(tgt), len(st.stack)), []
    dis = []
    for j, (x, y) in enumerate(zip(reversed(st.stack), tgt)):
        if not x.eq(y):
            dis.append(("stack word %d from top" % j, x != y))
    wa = ctx.fresh("waddr")
    xa = st.mem.byte(wa)
    xb = sem.mem_view(None).byte(wa)
    if not xa.eq(xb):
        dis.append(("memory byte", z3.And(z3.ULT(wa, E.BV(E.LIMIT)), xa != xb)))
    wk = ctx.fresh("wkey")
    sa = z3.Select(st.sto, wk)
    sb = sem.sto_read(None, wk)
    if not sa.eq(sb):
        dis.append(("storage slot", sa != sb))
    return ctx, st, sem, None, dis


def _order_from_model(sem, model):
    pos = [(model.eval(p, model_completion=True).as_long(), i) for i, p in sem.pos.items()]
    return [i for _, i in sorted(pos)]


def _replay(ctx, sem, model, sfs, instrs):
    orc = ModelOracle(model, ctx)
    n = len(sfs["src_ws"])
    frame = max(0, E.needed_depth(instrs)[0] - n)
    order = _order_from_model(sem, model)
    try:
        c = C.run(instrs, n + frame, orc)
        stack, mem, sto = SC.evaluate(sfs, order, orc)
        stack = stack + [orc.inp(n + k) for k in range(frame)]
    except C.OutOfBounds:
        return None, order, orc.log, "out-of-bounds"
    except SC.SpecEvalError as e:
        return None, order, orc.log, "spec-eval: %s" % e
    return _compare_concrete(c, stack, mem, sto, orc), order, orc.log, None


def _compare_concrete(c, stack, mem, sto, orc):
    bstack = list(reversed(c.stack))
    if bstack != stack:
        return "stack: block %s, specification %s" % ([hex(v) for v in bstack], [hex(v) for v in stack])
    for addr in sorted(set(c.mem) | set(mem)):
        va = c.mem[addr] if addr in c.mem else orc.mem_base("init", addr) & 0xff
        vb = mem[addr] if addr in mem else orc.mem_base("init", addr) & 0xff
        if va != vb:
            return "memory byte %#x: block %#x, specification %#x" % (addr, va, vb)
    for k in sorted(set(c.sto) | set(sto)):
        va = c.sto[k] if k in c.sto else orc.sto_base("init", k)
        vb = sto[k] if k in sto else orc.sto_base("init", k)
        if va != vb:
            return "storage slot %#x: block %#x, specification %#x" % (k, va, vb)
    return None


def concrete_probe(sem, sfs, instrs):
    """accelerator only: boundary states on the concrete twins under one admissible order (a topological order of the
    declared dependencies and data flow).  A difference is a real counterexample; none decides nothing."""
    closure = sem.ordered_closure()
    ids = list(sem.pos)
    order = []
    left = list(ids)
    while left:
        pick = None
        for i in left:
            if all((j, i) not in closure for j in left if j != i):
                pick = i
                break
        if pick is None:
            return None, None, None          # cyclic constraints: no admissible order at all
        order.append(pick)
        left.remove(pick)
    n = len(sfs["src_ws"])
    frame = max(0, E.needed_depth(instrs)[0] - n)
    for seed in range(PROBE_SEEDS):
        orc = RecordingOracle(C.HashOracle(seed))
        try:
            c = C.run(instrs, n + frame, orc, max_len=2048)
            stack, mem, sto = SC.evaluate(sfs, order, orc)
            stack = stack + [orc.inp(n + k) for k in range(frame)]
        except (C.OutOfBounds, SC.SpecEvalError, IndexError, ValueError, KeyError):
            continue
        d = _compare_concrete(c, stack, mem, sto, orc)
        if d is not None:
            return d, order, orc.log
    return None, None, None


_COMMUTES = {}


def commutes(disasm, timeout_ms=20000):
    """does OP(a, b) = OP(b, a) hold for all 256-bit a, b?  ("yes", None) | ("no", (a, b)) | ("unknown", None); one solver
    query per opcode name, cached.  A specification that marks an instruction `commutative` allows every back end (and the
    checker) to swap its operands, so the mark is part of what the specification denotes."""
    if disasm in _COMMUTES:
        return _COMMUTES[disasm]
    res = ("unknown", None)
    try:
        ctx = E.Ctx(abstract=False)
        terms = []
        for order in ((0, 1), (1, 0)):
            ins = {"id": "X_0", "disasm": disasm, "opcode": "00", "inpt_sk": ["s(%d)" % order[0], "s(%d)" % order[1]], "outpt_sk": ["s(9)"],
                   "commutative": True, "storage": False, "gas": 3, "size": 1}
            sem = S.SpecSem(ctx, {"src_ws": ["s(0)", "s(1)"], "tgt_ws": ["s(9)"], "user_instrs": [ins], "memory_dependences": [],
                                  "storage_dependences": [], "dependencies": []})
            terms.append(sem.value("s(9)"))
        verdict, model = solve(ctx.assumptions + ctx.side + [terms[0] != terms[1]], timeout_ms, STATS, "commutative-mark")
        if verdict == "unsat":
            res = ("yes", None)
        elif verdict == "sat":
            a = model.eval(ctx.inp(0), model_completion=True).as_long()
            b = model.eval(ctx.inp(1), model_completion=True).as_long()
            res = ("no", (a, b))
    except Exception:                     # noqa: an opcode the semantics does not cover decides nothing
        res = ("unknown", None)
    _COMMUTES[disasm] = res
    return res


def check_spec(sfs, instrs, timeout_ms=10000, max_relevant=MAX_RELEVANT, kind="c02"):
    t0 = time.time()
    nrel = len([i for i in sfs["user_instrs"] if i["disasm"] in S.RELEVANT])
    if nrel > max_relevant:
        return SpecResult("too-large", "%d memory/storage operations" % nrel, n_rel=nrel)
    for ins in sfs["user_instrs"]:
        if ins.get("commutative") is True and len(ins.get("inpt_sk", [])) == 2 and ins["disasm"] not in S.RELEVANT:
            v, w = commutes(ins["disasm"])
            if v == "no":
                why = "%s is marked commutative but %s(0x%x, 0x%x) differs from %s(0x%x, 0x%x): the back ends may swap its operands" % (
                    ins["id"], ins["disasm"], w[0], w[1], ins["disasm"], w[1], w[0])
                return SpecResult("different", why, {"observed": why, "state": {"a": hex(w[0]), "b": hex(w[1])}, "order": []},
                                  time.time() - t0, nrel)
    probed = False
    for abstract in (True, False):
        try:
            ctx, st, sem, reason, dis = _build(sfs, instrs, abstract)
        except E.Unsupported as e:
            return SpecResult("unsupported", str(e), n_rel=nrel)
        except E.StackUnderflow:
            return SpecResult("unsupported", "stack underflow", n_rel=nrel)
        except S.SpecError as e:
            return SpecResult("malformed-spec", str(e), n_rel=nrel, seconds=time.time() - t0)
        if reason is not None:
            return SpecResult("different", reason, {"observed": reason, "state": {}, "order": []}, time.time() - t0, nrel)
        if abstract and not ctx.abstracted:
            continue
        stage = "abstract" if abstract else "precise"
        if not dis:
            return SpecResult("equal", "syntactically identical", seconds=time.time() - t0, n_rel=nrel)
        if not probed:
            probed = True
            d, order, log = concrete_probe(sem, sfs, instrs)
            if d is not None:
                STATS.record(kind + ":probe", "concrete-witness", "twin", 0.0)
                return SpecResult("different", "found by the concrete probe", {"observed": d, "order": order, "state": log},
                                  time.time() - t0, nrel)
        base = ctx.assumptions + ctx.side + sem.defs + sem.admissible()
        goal = base + [z3.Or(*[f for _, f in dis])]
        verdict, model = solve(goal, min(timeout_ms, 3000), STATS, kind + ":" + stage, portfolio=False)
        if verdict == "unknown" and not abstract and ctx.shift_amounts:
            # 257-way case split on a symbolic shift amount (see vlib.equiv._case_split)
            t = ctx.shift_amounts[0]
            cases = [t == E.BV(k) for k in range(256)] + [z3.UGE(t, E.BV(256))]
            allunsat = True
            for c in cases:
                v2, m2 = solve(goal + [c], 2000, STATS, kind + ":shift-case", portfolio=False)
                if v2 == "sat":
                    verdict, model = "sat", m2
                    allunsat = False
                    break
                if v2 != "unsat":
                    allunsat = False
                    break
            if allunsat:
                return SpecResult("equal", "unsat in all 257 shift-amount cases", seconds=time.time() - t0, n_rel=nrel)
        if verdict == "unknown" and not abstract and timeout_ms > 3000:
            verdict, model = solve(goal, timeout_ms, STATS, kind + ":" + stage + ":long")
        if verdict == "unsat":
            return SpecResult("equal", "unsat (%s)" % stage, seconds=time.time() - t0, n_rel=nrel)
        if verdict == "sat":
            if abstract:
                continue
            if not model_satisfies(model, goal):
                return SpecResult("unknown", "solver returned a model that does not satisfy the query",
                                  seconds=time.time() - t0, n_rel=nrel)
            labels = [l for l, f in dis if z3.is_true(model.eval(f, model_completion=True))]
            obs, order, log, err = _replay(ctx, sem, model, sfs, instrs)
            if err == "out-of-bounds":
                small = [z3.ULT(t, E.BV(4096)) for t in _limited_terms(ctx)]
                verdict, model = solve(goal + small, timeout_ms, STATS, kind + ":small-witness")
                if verdict == "sat":
                    labels = [l for l, f in dis if z3.is_true(model.eval(f, model_completion=True))]
                    obs, order, log, err = _replay(ctx, sem, model, sfs, instrs)
                if verdict != "sat" or err:
                    return SpecResult("unknown", "witness beyond the twin's reach", seconds=time.time() - t0, n_rel=nrel)
            elif err:
                return SpecResult("harness-error", err, seconds=time.time() - t0, n_rel=nrel)
            if obs is None:
                if ctx.abstracted:
                    return SpecResult("spurious", "model does not replay (EXP abstraction)", seconds=time.time() - t0, n_rel=nrel)
                return SpecResult("harness-error", "precise model does not replay: " + "; ".join(labels),
                                  {"order": order, "state": log}, time.time() - t0, nrel)
            return SpecResult("different", "; ".join(labels), {"observed": obs, "order": order, "state": log},
                              time.time() - t0, nrel)
        if not abstract:
            return SpecResult("unknown", "solver: " + verdict, seconds=time.time() - t0, n_rel=nrel)
    return SpecResult("unknown", "no verdict", seconds=time.time() - t0, n_rel=nrel)


def unordered_overlaps(sfs, timeout_ms=5000, max_relevant=MAX_RELEVANT, kind="c02:overlap"):
    """pairs of accesses (at least one store, same space) that some state makes overlap -- for two stores: makes write
    different bytes / values to a common address / key, since two stores of one value to one place commute -- and that
    neither the declared dependencies nor data flow order.  Returns list of dicts (a, b, witness)"""
    nrel = len([i for i in sfs["user_instrs"] if i["disasm"] in S.RELEVANT])
    if nrel > max_relevant or nrel < 2:
        return [], 0
    ctx = E.Ctx(abstract=False)
    try:
        sem = S.SpecSem(ctx, sfs)
        acc = {i["id"]: sem.access(i) for i in sem.rel}
        sem.finalize()
    except (S.SpecError, E.Unsupported):
        return [], 0
    closure = sem.ordered_closure()
    base = ctx.assumptions + ctx.side + sem.defs + sem.admissible()
    out = []
    asked = 0
    ids = list(acc)
    by_id = {i["id"]: i for i in sem.rel}
    for x in range(len(ids)):
        for y in range(x + 1, len(ids)):
            a, b = ids[x], ids[y]
            sa, oa, la, wa = acc[a]
            sb, ob, lb, wb = acc[b]
            if sa != sb or not (wa or wb):
                continue
            if (a, b) in closure or (b, a) in closure:
                continue
            ia, ib = by_id[a], by_id[b]
            if sa == "mem":
                ov = z3.And(z3.ULT(oa, ob + lb), z3.ULT(ob, oa + la), la != E.BV(0), lb != E.BV(0))
                if wa and wb:
                    # two stores: the order matters only if they write different bytes to a common address
                    x = z3.BitVec("ov_x_%s_%s" % (a, b), 256)

                    def written(ins, off, ln, addr):
                        v = sem.value(ins["inpt_sk"][1])
                        if ins["disasm"] == "MSTORE8":
                            return z3.Extract(7, 0, v)
                        sh = (E.BV(31) - (addr - off)) * E.BV(8)
                        return z3.Extract(7, 0, z3.LShR(v, sh))
                    ov = z3.And(ov, z3.ULT(x - oa, la), z3.ULT(x - ob, lb), written(ia, oa, la, x) != written(ib, ob, lb, x))
            else:
                ov = oa == ob
                if wa and wb:
                    # two stores of one value to one key commute
                    ov = z3.And(ov, sem.value(ia["inpt_sk"][1]) != sem.value(ib["inpt_sk"][1]))
            asked += 1
            verdict, model = solve(base + [ov], timeout_ms, STATS, kind, portfolio=False)
            if verdict == "sat":
                ev = lambda t: model.eval(t, model_completion=True).as_long()
                out.append({"a": a, "b": b, "space": sa, "offset_a": ev(oa), "offset_b": ev(ob),
                            "len_a": ev(la) if la is not None else None, "len_b": ev(lb) if lb is not None else None})
    return out, asked
