"""Evidence, known findings, replay files, exit codes."""
import hashlib
import json
import os
import sys
import time

VERIF = os.path.dirname(os.path.dirname(os.path.abspath(__file__)))
EXIT_OK, EXIT_VIOLATION, EXIT_HARNESS = 0, 1, 3


def tier():
    t = os.environ.get("VERIF_TIER", "quick")
    for i, a in enumerate(sys.argv):
        if a == "--tier" and i + 1 < len(sys.argv):
            t = sys.argv[i + 1]
    return "thorough" if t == "thorough" else "quick"


def seed():
    try:
        return int(os.environ.get("VERIF_SEED", "0"))
    except ValueError:
        return 0


def load_known():
    p = os.path.join(VERIF, "known_findings.json")
    if not os.path.exists(p):
        return {"findings": [], "fixed": []}
    with open(p) as f:
        return json.load(f)


class Report:
    def __init__(self, prop, level):
        self.prop = prop
        self.level = level
        self.t0 = time.time()
        self.coverage = {}
        self.assumptions = []
        self.violations = []       # (key, what, replay dict)
        self.known_hits = {}       # key -> count
        self.harness_errors = []
        self.extra = {}
        self.known = [k for k in load_known().get("findings", []) if k["property"] == prop]

    def match_known(self, key):
        for k in self.known:
            if k["key"] == key:
                return k
        return None

    def violation(self, key, what, replay):
        """key: canonical identity of the failing input/call site; what: one line; replay: json-able dict"""
        k = self.match_known(key)
        if k is not None:
            self.known_hits.setdefault(key, [0, k.get("what", what)])[0] += 1
            return False
        for (kk, _, _) in self.violations:
            if kk == key:
                return True
        self.violations.append((key, what, replay))
        return True

    def harness_error(self, msg):
        self.harness_errors.append(msg)

    def finish(self):
        wall = time.time() - self.t0
        # evaluations against a patched scratch tree (tools/eval_mutant.sh) must not overwrite the committed evidence
        evdir = os.environ.get("VERIF_EVIDENCE_DIR") or os.path.join(VERIF, "evidence")
        os.makedirs(evdir, exist_ok=True)
        paths = []
        d = os.path.join(VERIF, "replays", self.prop)
        if os.path.isdir(d):
            for old in os.listdir(d):
                if old.endswith(".json"):
                    os.unlink(os.path.join(d, old))
        for key, what, replay in self.violations[:50]:
            os.makedirs(d, exist_ok=True)
            h = hashlib.sha1(key.encode()).hexdigest()[:12]
            path = os.path.join(d, h + ".json")
            with open(path, "w") as f:
                json.dump({"property": self.prop, "key": key, "what": what, "replay": replay,
                           "replay_cmd": "./check %s --replay %s" % (self.prop, path)}, f, indent=1, default=str)
            paths.append(path)
        cov = dict(self.coverage)
        cov.setdefault("samples", [])
        cov["known_findings_matched"] = {k: v[0] for k, v in self.known_hits.items()}
        cov["harness_errors"] = self.harness_errors[:20]
        cov.update(self.extra)
        ev = {"property_id": self.prop, "tier": tier(), "seed": seed(), "level": self.level, "coverage": cov,
              "assumptions": self.assumptions, "wall_s": round(wall, 2), "violations": len(self.violations)}
        with open(os.path.join(evdir, self.prop + ".json"), "w") as f:
            json.dump(ev, f, indent=1, default=str)
        for key, (n, what) in sorted(self.known_hits.items()):
            print("KNOWN-FINDING: property=%s %s: %s (x%d)" % (self.prop, key, what, n))
        for m in self.harness_errors[:20]:
            print("HARNESS-ERROR property=%s %s" % (self.prop, m))
        if self.violations:
            # every listed violation was replayed against the real code; harness errors next to them are reported above
            for (key, what, _), path in zip(self.violations, paths):
                print("VIOLATION property=%s replay=%s" % (self.prop, path))
                print("  detail: %s: %s" % (key, what))
            return EXIT_VIOLATION
        if self.harness_errors:
            print("property=%s harness error (exit %d): the machinery, not the code under test, needs attention"
                  % (self.prop, EXIT_HARNESS))
            return EXIT_HARNESS
        print("OK property=%s tier=%s wall=%.1fs" % (self.prop, tier(), wall))
        return EXIT_OK
