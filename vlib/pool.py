"""Process pool: every unit of work runs in a fresh process bound to one GASOL option set (spawn).

The parent supervises: a job that makes no progress for `job_timeout` seconds (the alarm inside the worker cannot
interrupt C-level big-integer arithmetic or a native solver call) gets its worker killed, is reported as
harness_timeout, and the rest of its unit is re-queued."""
import importlib
import multiprocessing
import multiprocessing.connection as mpc
import os
import resource
import signal
import sys
import time
import traceback

NPROC = int(os.environ.get("VERIF_NPROC", "16"))
MEM_LIMIT = int(os.environ.get("VERIF_WORKER_MEM_GB", "6")) << 30


class JobTimeout(BaseException):
    pass


def _alarm(signum, frame):
    raise JobTimeout()


def _worker(conn, optset, extra, fn_name, jobs, job_timeout, init_name):
    try:
        sys.setrecursionlimit(10000)
        try:
            resource.setrlimit(resource.RLIMIT_AS, (MEM_LIMIT, MEM_LIMIT))
        except Exception:
            pass
        devnull = open(os.devnull, "w")
        os.dup2(devnull.fileno(), 2)          # GASOL prints tracebacks on stderr
        from vlib import gasol
        if optset is not None:
            gasol.setup_process(optset, extra)
        else:
            gasol.import_repo()
        mod, fn = fn_name.split(":")
        m = importlib.import_module(mod)
        f = getattr(m, fn)
        if init_name:
            getattr(m, init_name)()
        signal.signal(signal.SIGALRM, _alarm)
        for idx, j in enumerate(jobs):
            conn.send(("start", idx))
            t0 = time.time()
            try:
                signal.alarm(job_timeout)
                r = f(j)
                signal.alarm(0)
            except JobTimeout:
                r = {"harness_timeout": True}
            except MemoryError:
                signal.alarm(0)
                r = {"harness_memory": True}
            except Exception:
                signal.alarm(0)
                r = {"harness_exception": traceback.format_exc()}
            if isinstance(r, dict):
                r.setdefault("_secs", round(time.time() - t0, 3))
            conn.send(("done", idx, r))
        stats = None
        try:
            from vlib.equiv import STATS
            stats = STATS.as_dict()
        except Exception:
            pass
        conn.send(("end", stats))
    except BaseException:
        try:
            conn.send(("crash", traceback.format_exc()))
        except Exception:
            pass
    finally:
        try:
            conn.close()
        except Exception:
            pass
        try:
            # GASOL's scratch directory of this process (atexit handlers do not run with os._exit)
            import shutil
            import global_params.paths as _paths
            shutil.rmtree(_paths.gasol_path, ignore_errors=True)
        except Exception:
            pass
        os._exit(0)


def run(tasks, fn_name, job_timeout=120, nproc=None, extra=(), init_name=None, chunk=None, progress=None):
    """tasks: list of (optset or None, [jobs]).  Returns [(optset, job, result)] and merged solver stats."""
    nproc = nproc or NPROC
    total = sum(len(t[1]) for t in tasks)
    if chunk is None:
        chunk = max(1, min(200, total // (nproc * 3) + 1))
    queue = []
    for t in tasks:
        optset, jobs = t[0], t[1]
        ck = t[2] if len(t) > 2 and t[2] else chunk
        # no more than needed to keep every core busy, no fewer jobs per unit than amortises the ~3 s start-up
        ck = max(1, min(ck, len(jobs) // 4 + 1)) if len(jobs) > 64 else ck
        for i in range(0, len(jobs), ck):
            queue.append((optset, list(jobs[i:i + ck])))
    # longest units first
    queue.sort(key=lambda u: len(u[1]))
    from vlib.smt import Stats
    stats = Stats()
    results = []
    ctx = multiprocessing.get_context("spawn")
    retried = {}
    active = []        # dicts: proc, conn, optset, jobs, cur, t_start, done
    done_n = 0
    hard_grace = 15    # seconds beyond job_timeout before the parent kills

    def launch(optset, jobs):
        parent, child = ctx.Pipe(duplex=False)
        p = ctx.Process(target=_worker, args=(child, optset, tuple(extra), fn_name, jobs, job_timeout, init_name))
        p.daemon = True
        p.start()
        child.close()
        active.append({"proc": p, "conn": parent, "optset": optset, "jobs": jobs, "cur": None, "t": time.time(),
                       "done": set(), "t0": time.time()})

    def finish(w, kill=False):
        if kill:
            try:
                w["proc"].kill()
            except Exception:
                pass
        try:
            w["proc"].join(timeout=5)
        except Exception:
            pass
        try:
            w["conn"].close()
        except Exception:
            pass
        active.remove(w)

    while queue or active:
        while queue and len(active) < nproc:
            o, js = queue.pop()
            launch(o, js)
        conns = [w["conn"] for w in active]
        ready = mpc.wait(conns, timeout=0.5)
        now = time.time()
        def drain(w):
            nonlocal done_n
            try:
                while w["conn"].poll():
                    msg = w["conn"].recv()
                    w["t"] = now
                    if msg[0] == "start":
                        w["cur"] = msg[1]
                    elif msg[0] == "done":
                        idx, r = msg[1], msg[2]
                        w["done"].add(idx)
                        w["cur"] = None
                        results.append((w["optset"], w["jobs"][idx], r))
                        done_n += 1
                    elif msg[0] == "end":
                        if msg[1]:
                            stats.merge(msg[1])
                        w["ended"] = True
                    elif msg[0] == "crash":
                        w["crash"] = msg[1]
            except (EOFError, OSError):
                w["eof"] = True

        for w in list(active):
            if w["conn"] in ready:
                drain(w)
            if w.get("ended"):
                finish(w)
                continue
            dead = not w["proc"].is_alive()
            if dead:
                # the worker may have sent its last results and exited after `wait` returned: read them before judging
                w.pop("eof", None)
                drain(w)
                if w.get("ended"):
                    finish(w)
                    continue
            stuck = w["cur"] is not None and now - w["t"] > job_timeout + hard_grace
            boot_stuck = w["cur"] is None and not w["done"] and now - w["t0"] > 120
            if dead or stuck or boot_stuck or w.get("eof") or w.get("crash"):
                # account for the job in flight, re-queue what is left
                cur = w["cur"]
                rest = [k for k in range(len(w["jobs"])) if k not in w["done"] and k != cur]
                if cur is not None:
                    why = "harness_timeout" if stuck else "harness_worker_died"
                    jk = repr((w["optset"], w["jobs"][cur]))
                    if why == "harness_worker_died" and retried.get(jk, 0) < 1:
                        # a worker that dies without a timeout (e.g. allocator failure under the memory cap after many
                        # solver contexts) gets its job retried once, alone, in a fresh process
                        retried[jk] = retried.get(jk, 0) + 1
                        queue.append((w["optset"], [w["jobs"][cur]]))
                    else:
                        results.append((w["optset"], w["jobs"][cur], {why: True, "_secs": round(now - w["t"], 1),
                                                                      "crash": (w.get("crash") or "")[-1500:], "exitcode": w["proc"].exitcode}))
                        done_n += 1
                elif w.get("crash") or boot_stuck:
                    for k in rest:
                        results.append((w["optset"], w["jobs"][k], {"harness_exception": w.get("crash", "worker did not start")}))
                        done_n += 1
                    rest = []
                if rest:
                    queue.append((w["optset"], [w["jobs"][k] for k in rest]))
                finish(w, kill=True)
        if progress:
            progress(done_n, total)
    return results, stats
