"""E1 -- reference semantics of straight-line solc-assembly blocks in SMT (z3, BV256).

Written from the Yellow Paper / EIPs, not from GASOL's tables.  An instruction is a pair
(name, value): name as in solc's assembly JSON ("PUSH", "PUSH [tag]", "DUP3", ...), value a string or None.

Memory is byte addressed and read-over-write (an ITE chain over the write history, over a base function),
storage is an array, externally visible operations are recorded as events; after event k both executions of an
equivalence query receive the same havoc, which is sound because a difference in the event prefix already
satisfies the query.
"""
import z3

W = 256
MASK = (1 << 256) - 1
BV = lambda v: z3.BitVecVal(v & MASK, W)
BV256 = z3.BitVecSort(W)
BV8 = z3.BitVecSort(8)
LIMIT = 1 << 32          # assumption: every memory offset / length used is < 2^32

NULLARY_ENV = {"ADDRESS", "ORIGIN", "CALLER", "CALLVALUE", "CALLDATASIZE", "CODESIZE", "GASPRICE", "COINBASE",
               "TIMESTAMP", "NUMBER", "DIFFICULTY", "PREVRANDAO", "GASLIMIT", "CHAINID", "BASEFEE"}
ADDRESS_LIKE = {"ADDRESS", "ORIGIN", "CALLER", "COINBASE"}
EPOCH_NULLARY = {"SELFBALANCE", "RETURNDATASIZE"}
EPOCH_UNARY = {"BALANCE", "EXTCODESIZE", "EXTCODEHASH"}
PURE_UNARY = {"CALLDATALOAD", "BLOCKHASH"}
PSEUDO_PUSH_V = {"PUSH [tag]", "PUSH data", "PUSHIMMUTABLE", "PUSHLIB", "PUSH #[$]", "PUSH [$]"}
PSEUDO_PUSH_N = {"PUSHSIZE", "PUSHDEPLOYADDRESS"}
POSITION_DEPENDENT = {"PC"}
TERMINAL_REVERTING = {"REVERT", "INVALID", "ASSERTFAIL"}
TERMINAL_COMMITTING = {"RETURN", "STOP", "SELFDESTRUCT", "SUICIDE"}
LOGS = {"LOG0": 0, "LOG1": 1, "LOG2": 2, "LOG3": 3, "LOG4": 4}
CALLS7 = {"CALL", "CALLCODE"}
CALLS6 = {"DELEGATECALL", "STATICCALL"}
COPIES3 = {"CALLDATACOPY", "CODECOPY", "RETURNDATACOPY"}
HARD_OPS = {"MUL", "DIV", "SDIV", "MOD", "SMOD", "ADDMOD", "MULMOD", "EXP", "SIGNEXTEND"}


class Unsupported(Exception):
    pass


class StackUnderflow(Exception):
    pass


class Malformed(Exception):
    """not a valid assembly item (PUSH constant >= 2^256 or not hexadecimal, DUP/SWAP depth outside 1..16)"""


def push_value(value):
    try:
        v = int(str(value), 16)
    except (TypeError, ValueError):
        raise Malformed("PUSH operand %r is not a hexadecimal numeral" % (value,))
    if v < 0 or v > MASK or str(value).strip().lower().startswith(("-", "0x", "+")):
        raise Malformed("PUSH operand %r is not a canonical constant below 2^256" % (value,))
    return v


def is_num(t):
    return z3.is_bv_value(t)


def num(t):
    return t.as_long()


def pseudo_key(name, value):
    """identity of a pseudo-push operand: the number it denotes (hex for data/immutable hashes, decimal otherwise)"""
    if isinstance(value, int):
        return (name, value)
    v = str(value)
    try:
        if name in ("PUSH data", "PUSHIMMUTABLE", "PUSH #[$]", "PUSH [$]"):
            return (name, int(v, 16))
        if name == "PUSHLIB":
            return (name, v)
        return (name, int(v, 10))
    except ValueError:
        return (name, v)


class Ctx:
    """Symbols shared by the executions taking part in one query."""

    def __init__(self, abstract=False, prefix=""):
        self.abstract = abstract          # stage 1: hard arithmetic as uninterpreted functions
        self.abstracted = False           # did any abstraction actually happen?
        self.prefix = prefix
        self.inputs = []                  # in_0 = top of the input stack
        self.env = {}                     # key -> BV const
        self.funcs = {}                   # name -> z3 Function
        self.assumptions = []             # state assumptions (offsets < 2^32, addresses < 2^160, environment axioms)
        self.side = []                    # functional-consistency side constraints (keccak, UF commutativity, exp axioms)
        self.keccaks = []                 # (h, off, len, snapshot)
        self.mem_bases = {}               # generation -> Function BV256->BV8
        self.sto_bases = {}               # generation -> Array
        self.fresh_n = 0
        self.limited = set()
        self.shift_amounts = []           # symbolic shift amounts seen (candidates for a case split)

    def inp(self, i):
        while len(self.inputs) <= i:
            self.inputs.append(z3.BitVec("%sin_%d" % (self.prefix, len(self.inputs)), W))
        return self.inputs[i]

    def const(self, key):
        if key not in self.env:
            name = self.prefix + "env!" + "!".join(str(k) for k in key)
            c = z3.BitVec(name, W)
            self.env[key] = c
            if key[0] in ADDRESS_LIKE:
                self.assumptions.append(z3.ULT(c, BV(1 << 160)))
        return self.env[key]

    def func(self, name, arity, rng=BV256):
        if name not in self.funcs:
            self.funcs[name] = z3.Function(self.prefix + name, *([BV256] * arity + [rng]))
        return self.funcs[name]

    def fresh(self, tag):
        self.fresh_n += 1
        return z3.BitVec("%s%s!%d" % (self.prefix, tag, self.fresh_n), W)

    def mem_base(self, gen):
        if gen not in self.mem_bases:
            self.mem_bases[gen] = z3.Function("%smem0!%s" % (self.prefix, gen), BV256, BV8)
        return self.mem_bases[gen]

    def sto_base(self, gen):
        if gen not in self.sto_bases:
            self.sto_bases[gen] = z3.Array("%ssto0!%s" % (self.prefix, gen), BV256, BV256)
        return self.sto_bases[gen]

    def limit(self, t):
        """assume a memory offset / length is < 2^32"""
        if is_num(t):
            if num(t) >= LIMIT:
                self.assumptions.append(z3.BoolVal(False))
            return
        k = t.get_id()
        if k not in self.limited:
            self.limited.add(k)
            self.assumptions.append(z3.ULT(t, BV(LIMIT)))


# ------------------------------------------------------------------------------------------------ memory

class Mem:
    """write history over a base function; entries newest last"""

    def __init__(self, ctx, gen="init", hist=()):
        self.ctx = ctx
        self.gen = gen
        self.hist = tuple(hist)

    def write32(self, off, val):
        return Mem(self.ctx, self.gen, self.hist + (("w32", off, val),))

    def write8(self, off, val):
        return Mem(self.ctx, self.gen, self.hist + (("w8", off, z3.Extract(7, 0, val)),))

    def write_range(self, off, ln, fn):
        """bytes off..off+ln-1 get fn(i) (i = index inside the range, a BV256 term)"""
        return Mem(self.ctx, self.gen, self.hist + (("range", off, ln, fn),))

    def havoc(self, gen):
        return Mem(self.ctx, gen, ())

    def byte(self, addr):
        r = self.ctx.mem_base(self.gen)(addr)
        for e in self.hist:
            if e[0] == "w32":
                _, off, val = e
                d = z3.simplify(addr - off)
                if is_num(d):
                    j = num(d)
                    if j < 32:
                        r = z3.Extract(255 - 8 * j, 248 - 8 * j, val)
                    continue
                r = z3.If(z3.ULT(d, BV(32)), _sel_byte(val, d), r)
            elif e[0] == "w8":
                _, off, b = e
                d = z3.simplify(addr - off)
                if is_num(d):
                    if num(d) == 0:
                        r = b
                    continue
                r = z3.If(addr == off, b, r)
            else:
                _, off, ln, fn = e
                d = z3.simplify(addr - off)
                r = z3.If(z3.ULT(d, ln), fn(d), r)
        return r

    def word(self, off):
        bs = [self.byte(z3.simplify(off + BV(i))) for i in range(32)]
        return z3.simplify(z3.Concat(*bs))


def _sel_byte(val, d):
    """byte number d (0 = most significant) of a 256-bit word, d known to be < 32: 5-level mux"""
    idx = z3.Extract(4, 0, d)
    items = [z3.Extract(255 - 8 * j, 248 - 8 * j, val) for j in range(32)]
    for bit in range(5):
        nxt = []
        b = z3.Extract(bit, bit, idx) == z3.BitVecVal(1, 1)
        for k in range(0, len(items), 2):
            nxt.append(z3.If(b, items[k + 1], items[k]))
        items = nxt
    return items[0]


# ------------------------------------------------------------------------------------------------ arithmetic

def b2w(c):
    return z3.If(c, BV(1), BV(0))


def op_exp_concrete(a, b):
    return pow(a, b, 1 << 256)


class Ops:
    def __init__(self, ctx):
        self.ctx = ctx

    def _uf(self, name, args, commutative=False):
        ctx = self.ctx
        ctx.abstracted = True
        f = ctx.func("uf_" + name, len(args))
        t = f(*args)
        if commutative:
            ctx.side.append(f(args[0], args[1]) == f(args[1], args[0]))
        return t

    def binop(self, name, a, b):
        ctx = self.ctx
        conc = is_num(a) and is_num(b)
        if name == "ADD":
            return a + b
        if name == "SUB":
            return a - b
        if name == "AND":
            return a & b
        if name == "OR":
            return a | b
        if name == "XOR":
            return a ^ b
        if name == "LT":
            return b2w(z3.ULT(a, b))
        if name == "GT":
            return b2w(z3.UGT(a, b))
        if name == "SLT":
            return b2w(a < b)
        if name == "SGT":
            return b2w(a > b)
        if name == "EQ":
            return b2w(a == b)
        if name in ("SHL", "SHR", "SAR") and not is_num(a):
            if not any(a.eq(t) for t in ctx.shift_amounts):
                ctx.shift_amounts.append(a)
        # the explicit >= 256 guard is redundant for bvshl/bvlshr/bvashr but lets the solver see the case at once
        if name == "SHL":
            return b << a if is_num(a) else z3.If(z3.ULT(a, BV(256)), b << a, BV(0))
        if name == "SHR":
            return z3.LShR(b, a) if is_num(a) else z3.If(z3.ULT(a, BV(256)), z3.LShR(b, a), BV(0))
        if name == "SAR":
            return b >> a if is_num(a) else z3.If(z3.ULT(a, BV(256)), b >> a, z3.If(b < BV(0), BV(MASK), BV(0)))
        if name == "BYTE":
            return z3.If(z3.ULT(a, BV(32)), z3.LShR(b, (BV(31) - a) * BV(8)) & BV(0xff), BV(0))
        if name == "EXP":
            return self.exp(a, b)
        if name in ("DIV", "SDIV") and a.eq(b):
            return z3.If(a == BV(0), BV(0), BV(1))      # x/x: lemma, exact
        if name in ("MOD", "SMOD") and a.eq(b):
            return BV(0)                                # x%x: lemma, exact
        if ctx.abstract and not conc and name in HARD_OPS:
            return self._uf(name, [a, b], commutative=(name == "MUL"))
        if name == "MUL":
            return a * b
        if name == "DIV":
            return z3.If(b == BV(0), BV(0), z3.UDiv(a, b))
        if name == "SDIV":
            return z3.If(b == BV(0), BV(0), a / b)
        if name == "MOD":
            return z3.If(b == BV(0), BV(0), z3.URem(a, b))
        if name == "SMOD":
            return z3.If(b == BV(0), BV(0), z3.SRem(a, b))
        if name == "SIGNEXTEND":
            r = b
            for k in range(30, -1, -1):
                bits = 8 * k + 8
                r = z3.If(a == BV(k), z3.SignExt(W - bits, z3.Extract(bits - 1, 0, b)), r)
            return r
        raise Unsupported(name)

    def exp(self, a, b):
        ctx = self.ctx
        if is_num(a) and is_num(b):
            return BV(op_exp_concrete(num(a), num(b)))
        if is_num(b) and num(b) <= 64 and not ctx.abstract:
            r = BV(1)
            e = num(b)
            base = a
            while e:
                if e & 1:
                    r = r * base
                e >>= 1
                if e:
                    base = base * base
            return r
        if is_num(a):
            av = num(a)
            if av == 0:
                return b2w(b == BV(0))
            if av == 1:
                return BV(1)
            if av & (av - 1) == 0:
                k = av.bit_length() - 1          # a = 2^k, k >= 1
                return z3.If(z3.ULT(b, BV(256)), BV(1) << (b * BV(k)), BV(0)) if k == 1 else \
                    z3.If(z3.ULT(b, BV((255 // k) + 1)), BV(1) << (b * BV(k)), BV(0))
            if not ctx.abstract:
                # constant base: 256-step square-and-multiply over the exponent bits, squares are constants
                r = BV(1)
                sq = av
                for i in range(256):
                    r = z3.If(z3.Extract(i, i, b) == z3.BitVecVal(1, 1), r * BV(sq), r)
                    sq = (sq * sq) & MASK
                    if sq == 0:
                        break
                if sq == 0 and i < 255:
                    # higher exponent bits multiply by 0 unless they are all clear
                    hi = z3.Extract(255, i + 1, b)
                    r = z3.If(hi == z3.BitVecVal(0, 255 - i), r, BV(0))
                return r
        # general case: uninterpreted with the defining special cases as axioms (an over-approximation)
        ctx.abstracted = True
        f = ctx.func("uf_EXP", 2)
        t = f(a, b)
        ctx.side.append(z3.Implies(b == BV(0), t == BV(1)))
        ctx.side.append(z3.Implies(b == BV(1), t == a))
        ctx.side.append(z3.Implies(b == BV(2), t == a * a))
        ctx.side.append(z3.Implies(z3.And(a == BV(0), b != BV(0)), t == BV(0)))
        ctx.side.append(z3.Implies(a == BV(1), t == BV(1)))
        ctx.side.append(z3.Implies(a == BV(2), t == z3.If(z3.ULT(b, BV(256)), BV(1) << b, BV(0))))
        return t

    def ternop(self, name, a, b, n):
        ctx = self.ctx
        if ctx.abstract and not (is_num(a) and is_num(b) and is_num(n)):
            return self._uf(name, [a, b, n])
        if name == "ADDMOD":
            s = z3.ZeroExt(1, a) + z3.ZeroExt(1, b)
            return z3.If(n == BV(0), BV(0), z3.Extract(255, 0, z3.URem(s, z3.ZeroExt(1, n))))
        if name == "MULMOD":
            p = z3.ZeroExt(256, a) * z3.ZeroExt(256, b)
            return z3.If(n == BV(0), BV(0), z3.Extract(255, 0, z3.URem(p, z3.ZeroExt(256, n))))
        raise Unsupported(name)


# ------------------------------------------------------------------------------------------------ execution

class Event:
    def __init__(self, op, operands, data=None, tag=None):
        self.op = op                # opcode name (+ pseudo operand for ASSIGNIMMUTABLE)
        self.operands = operands    # list of BV256 terms
        self.data = data            # None or (mem snapshot, off, len)
        self.tag = tag


class State:
    def __init__(self, ctx, n_inputs):
        self.ctx = ctx
        self.n_inputs = n_inputs
        self.stack = [ctx.inp(i) for i in range(n_inputs - 1, -1, -1)]   # top at the end
        self.mem = Mem(ctx)
        self.sto = ctx.sto_base("init")
        self.events = []
        self.epoch = 0
        self.occ = {}
        self.terminal = None
        self.max_height = n_inputs
        self.msize = ctx.const(("MSIZE0",))     # highest touched address rounded up to a word, so far


def needed_depth(instrs):
    """(minimal input stack size, height delta) by plain arity arithmetic"""
    cur = 0
    need = 0
    for name, _ in instrs:
        c, p = arity(name)
        if c > cur:
            need += c - cur
            cur = c
        cur = cur - c + p
    return need, cur - need


def arity(name):
    if name.startswith("DUP"):
        k = int(name[3:])
        return k, k + 1
    if name.startswith("SWAP"):
        k = int(name[4:])
        return k + 1, k + 1
    if name in ("PUSH", "PUSH0") or name in PSEUDO_PUSH_V or name in PSEUDO_PUSH_N:
        return 0, 1
    if name in NULLARY_ENV or name in EPOCH_NULLARY or name in ("GAS", "PC", "MSIZE"):
        return 0, 1
    if name in ("ADD", "SUB", "MUL", "DIV", "SDIV", "MOD", "SMOD", "EXP", "SIGNEXTEND", "LT", "GT", "SLT", "SGT", "EQ",
                "AND", "OR", "XOR", "BYTE", "SHL", "SHR", "SAR", "KECCAK256", "SHA3"):
        return 2, 1
    if name in ("ADDMOD", "MULMOD"):
        return 3, 1
    if name in ("ISZERO", "NOT", "MLOAD", "SLOAD") or name in EPOCH_UNARY or name in PURE_UNARY:
        return 1, 1
    if name in ("MSTORE", "MSTORE8", "SSTORE", "JUMPI", "RETURN", "REVERT", "ASSIGNIMMUTABLE"):
        return 2, 0
    if name in ("POP", "JUMP", "SELFDESTRUCT", "SUICIDE"):
        return 1, 0
    if name in ("STOP", "INVALID", "ASSERTFAIL", "JUMPDEST", "tag"):
        return 0, 0
    if name in LOGS:
        return 2 + LOGS[name], 0
    if name in CALLS7:
        return 7, 1
    if name in CALLS6:
        return 6, 1
    if name == "CREATE":
        return 3, 1
    if name == "CREATE2":
        return 4, 1
    if name in COPIES3:
        return 3, 0
    if name == "EXTCODECOPY":
        return 4, 0
    raise Unsupported(name)


def execute(ctx, instrs, n_inputs):
    st = State(ctx, n_inputs)
    ops = Ops(ctx)
    S = st.stack

    def pop():
        if not S:
            raise StackUnderflow()
        return S.pop()

    def push(t):
        S.append(z3.simplify(t) if not is_num(t) else t)
        st.max_height = max(st.max_height, len(S))

    def occ(name):
        k = st.occ.get(name, 0)
        st.occ[name] = k + 1
        return k

    def touch(off, ln):
        """memory expansion: MSIZE is the highest touched address rounded up to 32 (a zero-length access touches nothing)"""
        end = off + ln
        up = (end + BV(31)) & BV(MASK ^ 31)
        grow = z3.And(ln != BV(0), z3.UGT(up, st.msize)) if not is_num(ln) else (z3.UGT(up, st.msize) if num(ln) else z3.BoolVal(False))
        st.msize = z3.simplify(z3.If(grow, up, st.msize))

    def event(op, operands, data=None):
        k = len(st.events)
        st.events.append(Event(op, operands, data))
        return k

    for name, value in instrs:
        if st.terminal is not None:
            raise Unsupported("instruction after terminal")
        if name in ("tag", "JUMPDEST"):
            continue
        if name == "PUSH":
            push(BV(push_value(value)))
        elif name == "PUSH0":
            push(BV(0))
        elif name in PSEUDO_PUSH_V:
            push(ctx.const(pseudo_key(name, value)))
        elif name in PSEUDO_PUSH_N:
            push(ctx.const((name,)))
        elif name.startswith("DUP"):
            k = int(name[3:])
            if not 1 <= k <= 16:
                raise Malformed(name)
            if len(S) < k:
                raise StackUnderflow()
            push(S[-k])
        elif name.startswith("SWAP"):
            k = int(name[4:])
            if not 1 <= k <= 16:
                raise Malformed(name)
            if len(S) < k + 1:
                raise StackUnderflow()
            S[-1], S[-1 - k] = S[-1 - k], S[-1]
        elif name == "POP":
            pop()
        elif name in ("ADD", "SUB", "MUL", "DIV", "SDIV", "MOD", "SMOD", "EXP", "SIGNEXTEND", "LT", "GT", "SLT", "SGT",
                      "EQ", "AND", "OR", "XOR", "BYTE", "SHL", "SHR", "SAR"):
            a = pop()
            b = pop()
            push(ops.binop(name, a, b))
        elif name in ("ADDMOD", "MULMOD"):
            a = pop()
            b = pop()
            n = pop()
            push(ops.ternop(name, a, b, n))
        elif name == "ISZERO":
            push(b2w(pop() == BV(0)))
        elif name == "NOT":
            push(~pop())
        elif name in NULLARY_ENV:
            push(ctx.const((("DIFFICULTY" if name == "PREVRANDAO" else name),)))
        elif name in EPOCH_NULLARY:
            if name == "SELFBALANCE":
                # BALANCE(ADDRESS) = SELFBALANCE is an axiom of the environment
                f = ctx.func("BALANCE!%d" % st.epoch, 1)
                push(f(ctx.const(("ADDRESS",))))
            else:
                push(ctx.const((name, st.epoch)))
        elif name in EPOCH_UNARY:
            f = ctx.func("%s!%d" % (name, st.epoch), 1)
            push(f(pop()))
        elif name in PURE_UNARY:
            push(ctx.func(name, 1)(pop()))
        elif name == "GAS":
            push(ctx.const(("GAS", occ("GAS"))))
        elif name == "MSIZE":
            push(st.msize)
        elif name in POSITION_DEPENDENT:
            raise Unsupported(name)
        elif name == "MLOAD":
            off = pop()
            ctx.limit(off)
            touch(off, BV(32))
            push(st.mem.word(off))
        elif name == "MSTORE":
            off = pop()
            val = pop()
            ctx.limit(off)
            touch(off, BV(32))
            st.mem = st.mem.write32(off, val)
        elif name == "MSTORE8":
            off = pop()
            val = pop()
            ctx.limit(off)
            touch(off, BV(1))
            st.mem = st.mem.write8(off, val)
        elif name == "SLOAD":
            push(z3.Select(st.sto, pop()))
        elif name == "SSTORE":
            k = pop()
            v = pop()
            st.sto = z3.Store(st.sto, k, v)
        elif name in ("KECCAK256", "SHA3"):
            off = pop()
            ln = pop()
            ctx.limit(off)
            ctx.limit(ln)
            touch(off, ln)
            push(keccak(ctx, st.mem, off, ln))
        elif name in LOGS:
            off = pop()
            ln = pop()
            topics = [pop() for _ in range(LOGS[name])]
            ctx.limit(off)
            ctx.limit(ln)
            event(name, topics + [ln], (st.mem, off, ln))
        elif name in CALLS7 or name in CALLS6:
            gas = pop()
            addr = pop()
            val = pop() if name in CALLS7 else None
            ioff = pop()
            iln = pop()
            ooff = pop()
            oln = pop()
            for t in (ioff, iln, ooff, oln):
                ctx.limit(t)
            k = event(name, [gas, addr] + ([val] if val is not None else []) + [iln, ooff, oln], (st.mem, ioff, iln))
            _external_havoc(st, k, writes=(ooff, oln))
            push(ctx.const(("havoc_ret", k)))
        elif name in ("CREATE", "CREATE2"):
            val = pop()
            off = pop()
            ln = pop()
            salt = [pop()] if name == "CREATE2" else []
            ctx.limit(off)
            ctx.limit(ln)
            k = event(name, [val, ln] + salt, (st.mem, off, ln))
            _external_havoc(st, k)
            push(ctx.const(("havoc_ret", k)))
        elif name in COPIES3 or name == "EXTCODECOPY":
            addr = [pop()] if name == "EXTCODECOPY" else []
            dst = pop()
            src = pop()
            ln = pop()
            ctx.limit(dst)
            ctx.limit(ln)
            k = event(name, addr + [dst, src, ln])
            fname = "copy_%s!%d" % (name, st.epoch if name in ("RETURNDATACOPY", "EXTCODECOPY") else 0)
            f = ctx.func(fname, 2 + len(addr), BV8)
            st.mem = st.mem.write_range(dst, ln, (lambda i, f=f, src=src, addr=addr: f(*(addr + [src, i]))))
        elif name == "ASSIGNIMMUTABLE":
            a = pop()
            b = pop()
            k = event("ASSIGNIMMUTABLE " + str(value), [a, b])
            st.mem = st.mem.havoc("ev%d" % k)
        elif name in ("RETURN", "REVERT"):
            off = pop()
            ln = pop()
            ctx.limit(off)
            ctx.limit(ln)
            event(name, [ln], (st.mem, off, ln))
            st.terminal = name
        elif name in ("STOP", "INVALID", "ASSERTFAIL"):
            event(name, [])
            st.terminal = name
        elif name in ("SELFDESTRUCT", "SUICIDE"):
            event("SELFDESTRUCT", [pop()])
            st.terminal = "SELFDESTRUCT"
        elif name == "JUMP":
            event("JUMP", [pop()])
            st.terminal = "JUMP"
        elif name == "JUMPI":
            d = pop()
            c = pop()
            event("JUMPI", [d, b2w(c != BV(0))])
            st.terminal = "JUMPI"
        else:
            raise Unsupported(name)
    return st


def _external_havoc(st, k, writes=None):
    ctx = st.ctx
    st.epoch += 1
    st.sto = ctx.sto_base("ev%d" % k)
    if writes is not None:
        ooff, oln = writes
        wl = ctx.const(("havoc_len", k))
        ctx.assumptions.append(z3.ULE(wl, oln))
        f = ctx.func("havoc_mem!%d" % k, 1, BV8)
        st.mem = st.mem.write_range(ooff, wl, f)


def keccak(ctx, mem, off, ln):
    h = ctx.fresh("keccak")
    for (h2, mem2, off2, ln2) in ctx.keccaks:
        if is_num(ln) and is_num(ln2):
            if num(ln) != num(ln2):
                continue
            n = num(ln)
            if n <= 128:
                same = z3.And(*[mem.byte(z3.simplify(off + BV(i))) == mem2.byte(z3.simplify(off2 + BV(i)))
                                for i in range(n)]) if n else z3.BoolVal(True)
                ctx.side.append(z3.Implies(same, h == h2))
                continue
        i = ctx.fresh("kidx")
        ctx.side.append(z3.Implies(h != h2, z3.Or(ln != ln2, z3.And(z3.ULT(i, ln), mem.byte(off + i) != mem2.byte(off2 + i)))))
    ctx.keccaks.append((h, mem, off, ln))
    return h


# ------------------------------------------------------------------------------------------------ equivalence

def difference(ctx, a, b, compare="auto"):
    """list of (label, formula): each formula is satisfiable iff the two final states can differ in that respect.
    Returns (structural_reason or None, disjuncts)."""
    dis = []
    if len(a.events) != len(b.events):
        return "number of externally visible operations differs (%d vs %d)" % (len(a.events), len(b.events)), dis
    for k, (ea, eb) in enumerate(zip(a.events, b.events)):
        if ea.op != eb.op or len(ea.operands) != len(eb.operands):
            return "externally visible operation %d differs (%s vs %s)" % (k, ea.op, eb.op), dis
        for j, (x, y) in enumerate(zip(ea.operands, eb.operands)):
            if not x.eq(y):
                dis.append(("event %d (%s) operand %d" % (k, ea.op, j), x != y))
        if ea.data is not None:
            ma, oa, la = ea.data
            mb, ob, lb = eb.data
            i = ctx.fresh("evidx")
            dis.append(("event %d (%s) data" % (k, ea.op),
                        z3.And(z3.ULT(i, la), ma.byte(oa + i) != mb.byte(ob + i))))
    if a.terminal != b.terminal:
        return "terminal differs (%s vs %s)" % (a.terminal, b.terminal), dis
    term = a.terminal
    continues = term in (None, "JUMP", "JUMPI")
    if continues:
        ha = len(a.stack) - a.n_inputs
        hb = len(b.stack) - b.n_inputs
        if ha != hb:
            return "stack height change differs (%d vs %d)" % (ha, hb), dis
        for j, (x, y) in enumerate(zip(reversed(a.stack), reversed(b.stack))):
            if not x.eq(y):
                dis.append(("stack word %d from top" % j, x != y))
        wa = ctx.fresh("waddr")
        xa, xb = a.mem.byte(wa), b.mem.byte(wa)
        if not xa.eq(xb):
            dis.append(("memory byte", z3.And(z3.ULT(wa, BV(LIMIT)), xa != xb)))
    if continues or term in TERMINAL_COMMITTING:
        if not a.sto.eq(b.sto):
            wk = ctx.fresh("wkey")
            dis.append(("storage slot", z3.Select(a.sto, wk) != z3.Select(b.sto, wk)))
    return None, dis
