"""Replay of recorded counterexamples against the real code (fresh pipeline run + concrete twin)."""
import json
import sys

from . import gasol
from . import blockcheck as BC
from .equiv import concrete_difference


def replay_block_pair(path):
    with open(path) as f:
        doc = json.load(f)
    rp = doc["replay"]
    gasol.setup_process(rp["options"])
    text = rp.get("core") or rp["input"]
    print("property:", doc["property"], "| options:", gasol.optset_name(rp["options"]))
    reproduced = False
    for cand in (rp["input"], text):
        try:
            blocks = gasol.parse_plain(cand)
        except Exception as e:
            print("cannot parse", cand, e)
            continue
        for b in blocks:
            res = gasol.optimize_one(b)
            A = gasol.instrs_of(b)
            B = gasol.instrs_of(res["out_block"])
            print("input :", gasol.plain_of(A))
            print("output:", gasol.plain_of(B))
            if A == B:
                print("  pipeline left the block unchanged")
                continue
            try:
                d = concrete_difference(A, B, rp.get("state") or {})
            except Exception as e:
                d = None
                print("  twin could not run:", e)
            if d is None:
                rec, _ = BC.validate_block(b)
                if rec["verdict"] == "different":
                    d = rec["observed"]
            print("  observed:", d)
            if d:
                reproduced = True
        if reproduced:
            break
    print("REPRODUCED" if reproduced else "NOT REPRODUCED")
    return 1 if reproduced else 0


def replay_spec(path):
    """re-run the front-end on the recorded block and re-decide specification vs block"""
    with open(path) as f:
        doc = json.load(f)
    rp = doc["replay"]
    gasol.setup_process(rp["options"])
    import importlib
    c02 = importlib.import_module("checks.c02")
    print("property:", doc["property"], "| options:", gasol.optset_name(rp["options"]))
    reproduced = False
    for cand in (rp.get("core"), rp.get("input")):
        if not cand:
            continue
        for b in gasol.parse_plain(cand):
            for rec in c02.check_block(b, 8):
                print(cand, "=>", rec["verdict"], rec.get("why"), rec.get("observed"), rec.get("overlaps"))
                if rec["verdict"] == "different" or rec.get("overlaps"):
                    reproduced = True
        if reproduced:
            break
    print("REPRODUCED" if reproduced else "NOT REPRODUCED")
    return 1 if reproduced else 0
