"""Concrete evaluator of a specification under one explicit schedule (twin of vlib.spec_smt, used for replay)."""
from . import evm_conc as C
from .evm_smt import pseudo_key

MASK = (1 << 256) - 1


class SpecEvalError(Exception):
    pass


def apply_op(name, args, oracle, value=None):
    """value of a pure/environment instruction on concrete operands, computed by the concrete twin itself"""
    instrs = [("PUSH", "%x" % a) for a in reversed(args)] + [(name, value)]
    st = C.run(instrs, 0, oracle)
    return st.stack[-1]


def evaluate(sfs, order, oracle):
    """order: ids of the memory/storage relevant instructions in execution order.
    returns (stack top-first, mem overlay dict, sto overlay dict)"""
    instrs = {i["id"]: i for i in sfs["user_instrs"]}
    producer = {}
    for i in sfs["user_instrs"]:
        for o in i.get("outpt_sk", []):
            producer[o] = i
    src = list(sfs["src_ws"])
    vals = {}
    mem, sto = {}, {}
    executed = set()

    def val(v):
        if isinstance(v, int) and not isinstance(v, bool):
            return v & MASK
        if v in vals:
            return vals[v]
        if v in src:
            r = oracle.inp(src.index(v)) & MASK
        elif v in producer:
            ins = producer[v]
            d = ins["disasm"]
            if d in ("MLOAD", "SLOAD", "KECCAK256", "SHA3"):
                if ins["id"] not in executed:
                    raise SpecEvalError("load %s used before it is scheduled" % ins["id"])
                return vals[v]
            args = [val(a) for a in ins["inpt_sk"]]
            if d in ("PUSH", "PUSH0"):
                r = int(ins["value"][0]) & MASK if d == "PUSH" else 0
            elif d in ("PUSH [tag]", "PUSH data", "PUSHIMMUTABLE", "PUSHLIB", "PUSH #[$]", "PUSH [$]"):
                r = oracle.const(pseudo_key(d, ins["value"][0]))
            else:
                r = apply_op(d, args, oracle)
        else:
            raise SpecEvalError("dangling variable %s" % v)
        vals[v] = r
        return r

    def rd(addr):
        return mem[addr] if addr in mem else oracle.mem_base("init", addr) & 0xff

    for mid in order:
        ins = instrs[mid]
        d = ins["disasm"]
        a = [val(x) for x in ins["inpt_sk"]]
        if d == "MSTORE":
            for k, b in enumerate(a[1].to_bytes(32, "big")):
                mem[a[0] + k] = b
        elif d == "MSTORE8":
            mem[a[0]] = a[1] & 0xff
        elif d == "SSTORE":
            sto[a[0]] = a[1]
        elif d == "MLOAD":
            vals[ins["outpt_sk"][0]] = int.from_bytes(bytes(rd(a[0] + k) for k in range(32)), "big")
        elif d == "SLOAD":
            vals[ins["outpt_sk"][0]] = sto[a[0]] if a[0] in sto else oracle.sto_base("init", a[0])
        elif d in ("KECCAK256", "SHA3"):
            if a[1] > 1 << 16:
                raise C.OutOfBounds()
            vals[ins["outpt_sk"][0]] = oracle.keccak(bytes(rd(a[0] + k) for k in range(a[1])))
        executed.add(mid)
    stack = [val(v) for v in sfs["tgt_ws"]]
    return stack, mem, sto
