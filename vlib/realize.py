"""Realization of a specification by an id sequence (the notion of C04/C06/C16).

`simulate` is the reference stack machine over *names* (every opcode uninterpreted): it checks underflow, DUP/SWAP
depth 1..16, operands of every uninterpreted instruction (either order if commutative), each store exactly once, the
declared ordering constraints and the final stack.  `semantic_check` additionally decides by SMT (E1 vs E2) that the
assembly rebuilt from the ids denotes the specification under the schedule the sequence itself induces."""
import re
import time
import z3

from . import evm_smt as E
from . import spec_smt as S
from .equiv import STATS
from .smt import solve


def dependency_pairs(spec):
    pairs = []
    for key in ("storage_dependences", "memory_dependences", "dependencies"):
        for pr in spec.get(key, []) or []:
            if len(pr) == 2 and tuple(pr) not in pairs:
                pairs.append(tuple(pr))
    return pairs


def simulate(spec, ids, max_height=None):
    """returns (ok, reason, info)"""
    instrs = {i["id"]: i for i in spec["user_instrs"]}
    stack = list(spec["src_ws"])         # top first
    count = {}
    first, last = {}, {}
    peak = len(stack)
    for pos, iid in enumerate(ids):
        if iid == "NOP":
            continue
        m = re.fullmatch(r"(DUP|SWAP)(\d+)", iid)
        if m and iid not in instrs:
            k = int(m.group(2))
            if not 1 <= k <= 16:
                return False, "position %d: %s is outside depth 1..16" % (pos, iid), {}
            if m.group(1) == "DUP":
                if len(stack) < k:
                    return False, "position %d: %s underflows (height %d)" % (pos, iid, len(stack)), {}
                stack.insert(0, stack[k - 1])
            else:
                if len(stack) < k + 1:
                    return False, "position %d: %s underflows (height %d)" % (pos, iid, len(stack)), {}
                stack[0], stack[k] = stack[k], stack[0]
        elif iid == "POP" and iid not in instrs:
            if not stack:
                return False, "position %d: POP underflows" % pos, {}
            stack.pop(0)
        elif iid in instrs:
            ins = instrs[iid]
            need = list(ins["inpt_sk"])
            if len(stack) < len(need):
                return False, "position %d: %s underflows (needs %d, height %d)" % (pos, iid, len(need), len(stack)), {}
            got = stack[:len(need)]
            ok = got == need or (ins.get("commutative") and len(need) == 2 and got == need[::-1])
            if not ok:
                return False, "position %d: %s applied to %s but the specification names %s" % (pos, iid, got, need), {}
            del stack[:len(need)]
            for o in reversed(ins.get("outpt_sk", [])):
                stack.insert(0, o)
            count[iid] = count.get(iid, 0) + 1
            first.setdefault(iid, pos)
            last[iid] = pos
        else:
            return False, "position %d: unknown instruction id %r" % (pos, iid), {}
        peak = max(peak, len(stack))
        if max_height is not None and len(stack) > max_height:
            return False, "position %d: stack height %d exceeds the bound %d" % (pos, len(stack), max_height), {}
    for iid, ins in instrs.items():
        if ins.get("storage") or not ins.get("outpt_sk"):
            if count.get(iid, 0) != 1:
                return False, "store %s executed %d times" % (iid, count.get(iid, 0)), {}
    for a, b in dependency_pairs(spec):
        if a in last and b in first and not last[a] < first[b]:
            return False, "ordering constraint %s before %s is not respected" % (a, b), {}
        if (a in instrs and b in instrs) and (a not in last or b not in first):
            # an ordered instruction that never runs: only acceptable if its value is not needed (then both stay out)
            if (a in last) != (b in first):
                pass
    if stack != list(spec["tgt_ws"]):
        return False, "final stack %s differs from the specified %s" % (stack, list(spec["tgt_ws"])), {}
    return True, "", {"peak": peak, "count": count}


def induced_order(spec, ids):
    rel = [i["id"] for i in spec["user_instrs"] if i["disasm"] in S.RELEVANT]
    seq = [i for i in ids if i in rel]
    seen = []
    for i in seq:
        if i not in seen:
            seen.append(i)
    return [(seen[k], seen[k + 1]) for k in range(len(seen) - 1)], seen


def semantic_check(spec, instrs, ids, timeout_ms=8000, kind="c04:sem"):
    """exists sigma. exec(instrs, sigma) != eval(spec, order induced by ids, sigma);  returns (verdict, detail)"""
    t0 = time.time()
    for abstract in (True, False):
        ctx = E.Ctx(abstract=abstract)
        n = len(spec["src_ws"])
        try:
            need, _ = E.needed_depth(instrs)
            if need > n:
                return "different", "sequence needs %d stack items, the specification provides %d" % (need, n)
            st = E.execute(ctx, instrs, n)
            extra, seen = induced_order(spec, ids)
            sem = S.SpecSem(ctx, spec, extra_order=extra)
            tgt = sem.target_stack()
            sem.finalize()
        except (E.Unsupported, E.StackUnderflow, E.Malformed) as e:
            return "unsupported", str(e)
        except S.SpecError as e:
            return "malformed-spec", str(e)
        if len(tgt) != len(st.stack):
            return "different", "final height differs"
        if abstract and not ctx.abstracted:
            continue
        dis = []
        for j, (x, y) in enumerate(zip(reversed(st.stack), tgt)):
            if not x.eq(y):
                dis.append(x != y)
        wa = ctx.fresh("waddr")
        xa, xb = st.mem.byte(wa), sem.mem_view(None).byte(wa)
        if not xa.eq(xb):
            dis.append(z3.And(z3.ULT(wa, E.BV(E.LIMIT)), xa != xb))
        wk = ctx.fresh("wkey")
        sa, sb = z3.Select(st.sto, wk), sem.sto_read(None, wk)
        if not sa.eq(sb):
            dis.append(sa != sb)
        if not dis:
            return "equal", "syntactic"
        # only memory instructions that actually run are scheduled; the others keep free positions
        goal = ctx.assumptions + ctx.side + sem.defs + sem.admissible() + [z3.Or(*dis)]
        verdict, model = solve(goal, timeout_ms, STATS, kind + (":abstract" if abstract else ":precise"), portfolio=not abstract)
        if verdict == "unsat":
            return "equal", "unsat"
        if verdict == "sat" and not abstract:
            from .speccheck import _replay
            obs, order, log, err = _replay(ctx, sem, model, spec, instrs)
            if err:
                return "unknown", "model not replayable: " + err
            if obs is None:
                return ("spurious", "EXP abstraction") if ctx.abstracted else ("harness-error", "precise model does not replay")
            return "different", "%s (schedule %s)" % (obs, order)
        if verdict != "sat" and not abstract:
            return "unknown", verdict
    return "unknown", "no verdict"
