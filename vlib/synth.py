"""E3 -- reference stack-machine synthesis encoding ("Realize-SMT"), written from the specification format, not from
GASOL's smt_encoding/.

For a specification S, a length n and a stack bound bs the encoding defines, *as functions of the instruction sequence
t_0..t_{n-1}* (integers indexing an alphabet: ids of S's instructions, POP, DUPk, SWAPk, NOP), the stack contents
x[i][j], the height h[j] and an error flag err[j] (set when a precondition fails: underflow, wrong operands, height above
bs).  `realizes` is the quantifier-free formula  not err[n] and final stack = tgt_ws and stores exactly once and
ordering constraints respected and NOPs only at the end.  With t free it is a synthesis query (existence / minimum), with t
fixed it checks a given sequence, with t linked to another encoding's variables it supports model-set inclusion."""
import z3

from .realize import dependency_pairs


class Synth:
    def __init__(self, spec, n, bs, prefix="e3"):
        self.spec = spec
        self.n = n
        self.bs = max(bs, len(spec["src_ws"]), len(spec["tgt_ws"]), 1)
        self.prefix = prefix
        self.instrs = list(spec["user_instrs"])
        self.ids = [i["id"] for i in self.instrs]
        # value universe
        vals = []
        for v in list(spec["src_ws"]) + list(spec["tgt_ws"]):
            if v not in vals:
                vals.append(v)
        for i in self.instrs:
            for v in list(i["inpt_sk"]) + list(i.get("outpt_sk", [])):
                if v not in vals:
                    vals.append(v)
        self.vals = vals
        self.vidx = {v if not isinstance(v, list) else tuple(v): k + 1 for k, v in enumerate(vals)}    # 0 = empty
        # alphabet
        kmax = max(1, min(16, self.bs - 1))
        self.alphabet = list(self.ids) + ["POP"] + ["DUP%d" % k for k in range(1, kmax + 1)] + \
            ["SWAP%d" % k for k in range(1, kmax + 1)] + ["NOP"]
        self.code = {a: k for k, a in enumerate(self.alphabet)}
        self.t = [z3.Int("%s_t_%d" % (prefix, j)) for j in range(n)]
        self._build()

    def idx(self, v):
        return z3.IntVal(self.vidx[tuple(v) if isinstance(v, list) else v])

    def _build(self):
        n, bs = self.n, self.bs
        spec = self.spec
        E = z3.IntVal(0)
        x = [[None] * (n + 1) for _ in range(bs)]
        h = [None] * (n + 1)
        err = [None] * (n + 1)
        src = list(spec["src_ws"])
        for i in range(bs):
            x[i][0] = self.idx(src[i]) if i < len(src) else E
        h[0] = z3.IntVal(len(src))
        err[0] = z3.BoolVal(False)
        self.domain = [z3.And(t >= 0, t < len(self.alphabet)) for t in self.t]
        for j in range(n):
            t = self.t[j]
            pre_cases = []       # (condition on t, precondition)
            new_h = h[j]
            new_x = [x[i][j] for i in range(bs)]
            # build per-instruction effects, then merge with ITE over t
            effects = []
            for a in self.alphabet:
                c = t == self.code[a]
                if a == "NOP":
                    pre, hh, xx = z3.BoolVal(True), h[j], [x[i][j] for i in range(bs)]
                elif a == "POP" and a not in self.ids:
                    pre = h[j] >= 1
                    hh = h[j] - 1
                    xx = [x[i + 1][j] if i + 1 < bs else E for i in range(bs)]
                elif a.startswith("DUP") and a not in self.ids:
                    k = int(a[3:])
                    pre = z3.And(h[j] >= k, h[j] + 1 <= bs)
                    hh = h[j] + 1
                    xx = [x[k - 1][j]] + [x[i - 1][j] for i in range(1, bs)]
                elif a.startswith("SWAP") and a not in self.ids:
                    k = int(a[4:])
                    pre = h[j] >= k + 1
                    hh = h[j]
                    xx = [x[i][j] for i in range(bs)]
                    if k < bs:
                        xx[0], xx[k] = x[k][j], x[0][j]
                else:
                    ins = self.instrs[self.ids.index(a)]
                    ops = list(ins["inpt_sk"])
                    outs = list(ins.get("outpt_sk", []))
                    k = len(ops)
                    if k > bs:
                        pre = z3.BoolVal(False)
                    else:
                        straight = z3.And(*[x[i][j] == self.idx(ops[i]) for i in range(k)]) if k else z3.BoolVal(True)
                        if ins.get("commutative") and k == 2:
                            straight = z3.Or(straight, z3.And(x[0][j] == self.idx(ops[1]), x[1][j] == self.idx(ops[0])))
                        pre = z3.And(h[j] >= k, straight, h[j] - k + len(outs) <= bs)
                    hh = h[j] - k + len(outs)
                    rest = [x[i + k][j] if i + k < bs else E for i in range(bs)]
                    xx = [self.idx(o) for o in outs] + rest
                    xx = xx[:bs]
                effects.append((c, pre, hh, xx))
            pre_all = z3.BoolVal(True)
            hh_all = h[j]
            xx_all = [x[i][j] for i in range(bs)]
            for c, pre, hh, xx in effects:
                pre_all = z3.If(c, pre, pre_all)
                hh_all = z3.If(c, hh, hh_all)
                xx_all = [z3.If(c, xx[i], xx_all[i]) for i in range(bs)]
            err[j + 1] = z3.Or(err[j], z3.Not(pre_all))
            h[j + 1] = hh_all
            for i in range(bs):
                x[i][j + 1] = xx_all[i]
        self.x, self.h, self.err = x, h, err
        tgt = list(spec["tgt_ws"])
        final = [h[n] == len(tgt)] + [x[i][n] == self.idx(tgt[i]) for i in range(len(tgt))]
        # exactly-once instructions: the stores.  A load or hash is a pure read: it may run several times (or not at all if
        # nobody needs its value), but EVERY occurrence has to respect the ordering constraints (as realize.simulate demands)
        once = set()
        for ins in self.instrs:
            if ins.get("storage") or not ins.get("outpt_sk"):
                once.add(ins["id"])
        deps = [(a, b) for a, b in dependency_pairs(spec) if a in self.code and b in self.code]
        count = []
        for a in sorted(once):
            occ = [z3.If(t == self.code[a], 1, 0) for t in self.t]
            count.append(z3.Sum(occ) == 1 if occ else z3.BoolVal(False))
        order = []
        for a, b in deps:
            for j in range(n):
                for k in range(0, j + 1):
                    # b at position k and a at position j >= k: a does not precede b
                    order.append(z3.Not(z3.And(self.t[j] == self.code[a], self.t[k] == self.code[b])))
        nop = self.code["NOP"]
        nops_last = [z3.Implies(self.t[j] == nop, self.t[j + 1] == nop) for j in range(n - 1)]
        self.final = z3.And(*final)
        self.once = z3.And(*count) if count else z3.BoolVal(True)
        self.order = z3.And(*order) if order else z3.BoolVal(True)
        self.realizes = z3.And(z3.Not(err[n]), *(final + count + order + nops_last))
        self.length = z3.Sum([z3.If(t == nop, 0, 1) for t in self.t]) if self.t else z3.IntVal(0)
        self.peak = h

    def sequence(self, model):
        out = []
        for t in self.t:
            a = self.alphabet[model.eval(t, model_completion=True).as_long()]
            if a != "NOP":
                out.append(a)
        return out

    def fix(self, ids):
        """constraints fixing t to a given id sequence (padded with NOP)"""
        seq = list(ids) + ["NOP"] * (self.n - len(ids))
        if len(seq) > self.n or any(a not in self.code for a in seq):
            return None
        return [t == self.code[a] for t, a in zip(self.t, seq)]
