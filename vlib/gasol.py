"""Driver for the real GASOL pipeline (imported from $GASOL_REPO, default /repo).

One process = one option set for its whole life (like one CLI invocation): `split_sto` and `constants.split_block`
are set by -storage and never reset, so option sets must not share a process."""
import contextlib
import io
import os
import sys
import shutil
import warnings

REPO = os.environ.get("GASOL_REPO", "/repo")
Z3_STANDIN = "/usr/bin/z3"


def import_repo():
    if REPO not in sys.path[:1]:
        sys.path.insert(0, REPO)           # must precede the stdlib: the repo has a package called `statistics`
    warnings.filterwarnings("ignore")


SPLITS = ("none", "storage", "partition")
CRITERIA = ("gas", "size", "length")
BACKENDS = ("greedy", "ub-greedy", "z3")


def optset(split="none", criteria="gas", rules=True, push0=True, backend="greedy"):
    return {"split": split, "criteria": criteria, "rules": rules, "push0": push0, "backend": backend}


def optset_name(o):
    return "%s/%s/%s/%s/%s" % (o["split"], o["criteria"], "rules" if o["rules"] else "norules",
                               "push0" if o["push0"] else "nopush0", o["backend"])


def cli_args(o, extra=()):
    a = []
    if o["split"] == "storage":
        a.append("-storage")
    elif o["split"] == "partition":
        a.append("-partition")
    if o["criteria"] == "size":
        a.append("-size")
    elif o["criteria"] == "length":
        a.append("-length")
    if not o["rules"]:
        a.append("-no-simplification")
    if not o["push0"]:
        a.append("-push0")
    if o["backend"] == "greedy":
        a.append("-greedy")
    elif o["backend"] == "ub-greedy":
        a += ["-ub-greedy", "-solver", "z3"]
    else:
        a += ["-solver", "z3"]
    return a + list(extra)


ALL_OPTSETS = [optset(s, c, r, p, b) for s in SPLITS for c in CRITERIA for r in (True, False) for p in (True, False)
               for b in BACKENDS]

# pairwise-covering subset (every pair of option values occurs in some set)
QUICK_OPTSETS = [
    optset("none", "gas", True, True, "greedy"),
    optset("storage", "size", True, False, "greedy"),
    optset("partition", "length", True, True, "greedy"),
    optset("none", "size", False, True, "ub-greedy"),
    optset("storage", "gas", False, True, "z3"),
    optset("partition", "gas", True, False, "ub-greedy"),
    optset("none", "length", True, False, "z3"),
    optset("storage", "length", False, False, "ub-greedy"),
    optset("partition", "size", False, False, "z3"),
    optset("none", "gas", False, False, "greedy"),
    optset("storage", "gas", True, True, "ub-greedy"),
    optset("partition", "size", True, True, "z3"),
]


class Silence:
    """GASOL prints a lot; keep the workers quiet"""

    def __enter__(self):
        self._buf = io.StringIO()
        self._cm = contextlib.redirect_stdout(self._buf)
        self._cm2 = contextlib.redirect_stderr(self._buf)
        self._cm.__enter__()
        self._cm2.__enter__()
        return self

    def __exit__(self, *a):
        self._cm2.__exit__(*a)
        return self._cm.__exit__(*a)


_PARAMS = None
_OPTS = None


def setup_process(o, extra=()):
    """fix the option set of this process, exactly as execute_gasol() does"""
    global _PARAMS, _OPTS
    import_repo()
    from argparse import ArgumentParser
    import gasol_asm
    import global_params.constants as constants
    from global_params.options import OptimizationParams
    ap = ArgumentParser()
    gasol_asm.options_gasol(ap)
    args = ap.parse_args(["verif_input.txt", "-bl"] + cli_args(o, extra))
    p = OptimizationParams()
    p.parse_args(args)
    gasol_asm.init()
    if p.split_storage:
        constants.append_store_instructions_to_split()
    constants._set_push0(p.push0)
    import smt_encoding.solver.z3_executable as zx
    zx.z3_exec = Z3_STANDIN               # stand-in Max-SMT solver (stub, recorded in evidence)
    _PARAMS, _OPTS = p, dict(o)
    import atexit
    import global_params.paths as paths
    atexit.register(lambda: shutil.rmtree(paths.gasol_path, ignore_errors=True))
    return p


def params():
    return _PARAMS


def instrs_of(block):
    """[(disasm, value)] of an AsmBlock, the representation E1 works on"""
    return [(i.disasm, None if i.value is None else str(i.value)) for i in block.instructions]


def plain_of(instrs):
    out = []
    for n, v in instrs:
        if n in ("JUMP", "JUMPI") or v is None:
            out.append(n)
        else:
            out.append("%s %s" % (n, v))
    return " ".join(out)


def parse_plain(text, name="verif"):
    from sfs_generator.parser_asm import parse_blocks_from_plain_instructions
    return parse_blocks_from_plain_instructions(text, name, name)


def optimize_one(block):
    """what the tool does for one block, through the real gasol_asm.optimize_asm_contract (optimize, compare,
    keep-or-revert) on a contract holding just this block.
    returns dict(out_block, error, compare_error, reverted, reason, log)"""
    import gasol_asm
    from sfs_generator.asm_contract import AsmContract
    p = _PARAMS
    res = {"error": None, "compare_error": None, "eq": None, "reason": "", "log": {}, "reverted": False}
    c = AsmContract("verif.sol:" + (block.contract_name or "C"))
    c.init_code = [block]
    buf = Silence()
    with buf:
        try:
            new_contract, seq_rows, log_dicts, block_rows = gasol_asm.optimize_asm_contract(c, p)
        except Exception as e:            # noqa: the per-block pipeline is not supposed to raise (C10)
            res["error"] = "%s: %s" % (type(e).__name__, e)
            res["out_block"] = block
            return res
    out = new_contract.init_code[0]
    res["out_block"] = out
    res["log"] = log_dicts
    text = buf._buf.getvalue()
    if "Comparison failed, so initial block is kept" in text:
        res["reverted"] = True
        i = text.find("[REASON]:")
        res["reason"] = text[i + 9:i + 200].split("\n")[0].strip() if i >= 0 else ""
        res["eq"] = False
    else:
        res["eq"] = True
    return res


def sfs_of(block):
    """(syrup_contract dict, sub_block_list) of the real front-end for this block under the process option set"""
    import gasol_asm
    with Silence():
        d, subs = gasol_asm.compute_original_sfs_with_simplifications(block, _PARAMS)
    return d["syrup_contract"], subs


def example_documents():
    d = os.path.join(REPO, "examples", "jsons-solc")
    return sorted(os.path.join(d, f) for f in os.listdir(d) if f.endswith(".json_solc"))


def blocks_of_document(path):
    from sfs_generator.parser_asm import parse_asm
    asm = parse_asm(path)
    out = []
    for c in asm.contracts:
        if not c.has_asm_field:
            continue
        out.extend(c.init_code)
        for ident in c.get_data_ids_with_code():
            out.extend(c.get_run_code(ident))
    return out
