"""Own Keccak-256 (the pre-standard padding the EVM uses), for the concrete twin."""
_RC = [0x0000000000000001, 0x0000000000008082, 0x800000000000808A, 0x8000000080008000,
       0x000000000000808B, 0x0000000080000001, 0x8000000080008081, 0x8000000000008009,
       0x000000000000008A, 0x0000000000000088, 0x0000000080008009, 0x000000008000000A,
       0x000000008000808B, 0x800000000000008B, 0x8000000000008089, 0x8000000000008003,
       0x8000000000008002, 0x8000000000000080, 0x000000000000800A, 0x800000008000000A,
       0x8000000080008081, 0x8000000000008080, 0x0000000080000001, 0x8000000080008008]
_ROT = [[0, 36, 3, 41, 18], [1, 44, 10, 45, 2], [62, 6, 43, 15, 61], [28, 55, 25, 21, 56], [27, 20, 39, 8, 14]]
_M = (1 << 64) - 1


def _rol(x, n):
    n %= 64
    return ((x << n) | (x >> (64 - n))) & _M if n else x


def _f(A):
    for rc in _RC:
        C = [A[x][0] ^ A[x][1] ^ A[x][2] ^ A[x][3] ^ A[x][4] for x in range(5)]
        D = [C[(x - 1) % 5] ^ _rol(C[(x + 1) % 5], 1) for x in range(5)]
        A = [[A[x][y] ^ D[x] for y in range(5)] for x in range(5)]
        B = [[0] * 5 for _ in range(5)]
        for x in range(5):
            for y in range(5):
                B[y][(2 * x + 3 * y) % 5] = _rol(A[x][y], _ROT[x][y])
        A = [[B[x][y] ^ ((~B[(x + 1) % 5][y]) & B[(x + 2) % 5][y]) for y in range(5)] for x in range(5)]
        A[0][0] ^= rc
    return A


def keccak256(data: bytes) -> int:
    rate = 136
    p = bytearray(data)
    p.append(0x01)
    while len(p) % rate:
        p.append(0)
    p[-1] |= 0x80
    A = [[0] * 5 for _ in range(5)]
    for off in range(0, len(p), rate):
        blk = p[off:off + rate]
        for i in range(rate // 8):
            A[i % 5][i // 5] ^= int.from_bytes(blk[8 * i:8 * i + 8], 'little')
        A = _f(A)
    out = b''.join(A[i % 5][i // 5].to_bytes(8, 'little') for i in range(4))
    return int.from_bytes(out, 'big')


if __name__ == '__main__':
    assert keccak256(b'') == 0xc5d2460186f7233c927e7db2dcc703c0e500b653ca82273b7bfad8045d85a470
    assert keccak256(b'abc') == 0x4e03657aea45a94fc7d47ba826c8d667c0d1e6e33a64a036ec44f58fa12d6c45
    print('ok')
