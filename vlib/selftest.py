"""Encoder validation: E1's symbolic final state, evaluated in a solver model with pinned inputs, must coincide with
what the independent concrete twin computes from the same state (per random block)."""
import random
import z3
from . import evm_smt as E
from . import evm_conc as C
from .equiv import ModelOracle

VOCAB = ["ADD", "SUB", "MUL", "DIV", "SDIV", "MOD", "SMOD", "ADDMOD", "MULMOD", "EXP", "SIGNEXTEND", "LT", "GT", "SLT",
         "SGT", "EQ", "ISZERO", "AND", "OR", "XOR", "NOT", "BYTE", "SHL", "SHR", "SAR", "KECCAK256", "ADDRESS",
         "BALANCE", "CALLER", "CALLVALUE", "CALLDATALOAD", "CALLDATASIZE", "SELFBALANCE", "TIMESTAMP", "POP", "MLOAD",
         "MSTORE", "MSTORE8", "SLOAD", "SSTORE", "GAS", "LOG1", "CALL", "STATICCALL", "CALLDATACOPY", "CODECOPY",
         "RETURNDATASIZE", "EXTCODESIZE", "CREATE", "PUSH [tag]", "PUSHSIZE", "ASSIGNIMMUTABLE", "MSIZE", "MSIZE"]
BOUNDARY = [0, 1, 2, 3, 31, 32, 33, 64, 255, 256, 257, (1 << 160) - 1, (1 << 255) - 1, 1 << 255, (1 << 256) - 2,
            (1 << 256) - 1]


def random_block(rng, length):
    out = []
    h = 0
    for _ in range(length):
        r = rng.random()
        if r < 0.3:
            out.append(("PUSH", "%x" % rng.choice(BOUNDARY + [rng.randrange(0, 100), rng.randrange(0, 1 << 256)])))
        elif r < 0.4:
            out.append(("DUP%d" % rng.randint(1, 4), None))
        elif r < 0.5:
            out.append(("SWAP%d" % rng.randint(1, 4), None))
        else:
            name = rng.choice(VOCAB)
            out.append((name, "7" if name in ("PUSH [tag]", "ASSIGNIMMUTABLE") else None))
    if rng.random() < 0.3:
        out.append((rng.choice(["RETURN", "REVERT", "JUMP", "JUMPI", "STOP", "SELFDESTRUCT"]), None))
    return out


def one(rng, length):
    blk = random_block(rng, length)
    n, _ = E.needed_depth(blk)
    ctx = E.Ctx(abstract=False)
    st = E.execute(ctx, blk, n)
    if ctx.abstracted:
        return "skip", blk, None       # EXP with both operands symbolic is an over-approximation by construction
    s = z3.Solver()
    s.set("timeout", 20000)
    for a in ctx.assumptions + ctx.side:
        s.add(a)
    # pin the inputs: small offsets keep the twin's loops short, boundary values exercise the arithmetic
    for i in range(n):
        if rng.random() < 0.8:
            s.push()
            s.add(ctx.inp(i) == E.BV(rng.choice(BOUNDARY + [rng.randrange(0, 200)])))
            if str(s.check()) != "sat":
                s.pop()
    for t in [a.arg(0) for a in ctx.assumptions if z3.is_app(a) and a.decl().kind() == z3.Z3_OP_ULT]:
        s.push()
        s.add(z3.ULT(t, E.BV(600)))
        if str(s.check()) != "sat":
            s.pop()
    if str(s.check()) != "sat":
        return "skip", blk, None
    m = s.model()
    orc = ModelOracle(m, ctx)
    try:
        c = C.run(blk, n, orc, max_len=5000)
    except C.OutOfBounds:
        return "skip", blk, None
    ev = lambda t: m.eval(t, model_completion=True).as_long()
    # stack
    sym_stack = [ev(t) for t in st.stack]
    if sym_stack != c.stack:
        return "mismatch", blk, "stack %r vs %r" % (sym_stack, c.stack)
    if st.terminal != c.terminal:
        return "mismatch", blk, "terminal"
    for addr, v in c.mem.items():
        if ev(st.mem.byte(E.BV(addr))) != v:
            return "mismatch", blk, "memory at %d" % addr
    for a in (0, 1, 31, 32, 63, 64, 100, 599):
        want = c.mem[a] if a in c.mem else orc.mem_base(c.mem_gen, a)
        if ev(st.mem.byte(E.BV(a))) != want:
            return "mismatch", blk, "memory at %d (base)" % a
    for k, v in c.sto.items():
        if ev(z3.Select(st.sto, E.BV(k))) != v:
            return "mismatch", blk, "storage at %d" % k
    if len(st.events) != len(c.events):
        return "mismatch", blk, "event count"
    for se, ce in zip(st.events, c.events):
        if se.op != ce[0] or [ev(o) for o in se.operands] != ce[1]:
            return "mismatch", blk, "event %s operands" % se.op
        if se.data is not None:
            mem, off, ln = se.data
            n_ = ev(ln)
            o_ = ev(off)
            got = bytes(ev(mem.byte(E.BV(o_ + i))) for i in range(n_))
            if got != ce[2]:
                return "mismatch", blk, "event %s data" % se.op
    return "ok", blk, None


def run(n, seed):
    rng = random.Random(seed)
    ok = skip = 0
    for _ in range(n):
        verdict, blk, why = one(rng, rng.randint(1, 14))
        if verdict == "mismatch":
            return {"ok": ok, "skipped": skip, "mismatch": {"block": blk, "why": why}}
        if verdict == "ok":
            ok += 1
        else:
            skip += 1
    return {"ok": ok, "skipped": skip, "mismatch": None}


if __name__ == "__main__":
    import sys
    print(run(int(sys.argv[1]) if len(sys.argv) > 1 else 100, int(sys.argv[2]) if len(sys.argv) > 2 else 0))
