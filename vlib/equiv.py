"""Block equivalence queries on top of E1, with two-stage precision, replay on the concrete twin and statistics."""
import time
import z3
from . import evm_smt as E
from . import evm_conc as C
from .keccak import keccak256
from .smt import Stats, solve

STATS = Stats()


class ModelOracle:
    def __init__(self, model, ctx):
        self.m = model
        self.ctx = ctx
        self.log = {}
        self.ktable = None

    def _ev(self, t):
        return self.m.eval(t, model_completion=True).as_long()

    def inp(self, i):
        v = self._ev(self.ctx.inputs[i]) if i < len(self.ctx.inputs) else 0
        self.log["in_%d" % i] = v
        return v

    def const(self, key):
        v = self._ev(self.ctx.env[key]) if key in self.ctx.env else 0
        self.log["const:" + repr(key)] = v
        return v

    def func(self, name, args):
        if name in self.ctx.funcs:
            v = self._ev(self.ctx.funcs[name](*[E.BV(a) for a in args]))
        else:
            v = 0
        self.log["func:%s%r" % (name, tuple(args))] = v
        return v

    def mem_base(self, gen, addr):
        v = self._ev(self.ctx.mem_bases[gen](E.BV(addr))) if gen in self.ctx.mem_bases else 0
        self.log["mem:%s:%d" % (gen, addr)] = v
        return v

    def sto_base(self, gen, key):
        v = self._ev(z3.Select(self.ctx.sto_bases[gen], E.BV(key))) if gen in self.ctx.sto_bases else 0
        self.log["sto:%s:%d" % (gen, key)] = v
        return v

    def keccak(self, data):
        if self.ktable is None:
            self.ktable = {}
            for (h, mem, off, ln) in self.ctx.keccaks:
                n = self._ev(ln)
                o = self._ev(off)
                if n > 4096:
                    continue
                bs = bytes(self._ev(mem.byte(E.BV(o + i))) for i in range(n))
                self.ktable.setdefault(bs, self._ev(h))
        v = self.ktable[data] if data in self.ktable else keccak256(data)
        self.log["keccak:" + data.hex()] = v
        return v


class DictOracle:
    """replays a recorded state (the .log of a ModelOracle); anything not recorded is 0"""

    def __init__(self, log):
        self.log = log

    def inp(self, i):
        return self.log.get("in_%d" % i, 0)

    def const(self, key):
        return self.log.get("const:" + repr(key), 0)

    def func(self, name, args):
        return self.log.get("func:%s%r" % (name, tuple(args)), 0)

    def mem_base(self, gen, addr):
        return self.log.get("mem:%s:%d" % (gen, addr), 0)

    def sto_base(self, gen, key):
        return self.log.get("sto:%s:%d" % (gen, key), 0)

    def keccak(self, data):
        k = "keccak:" + data.hex()
        return self.log[k] if k in self.log else keccak256(data)


class Result:
    def __init__(self, verdict, reason="", state=None, replay=None, seconds=0.0, stage=""):
        self.verdict = verdict      # equal | different | unknown | unsupported | spurious
        self.reason = reason
        self.state = state          # recorded concrete state (dict) for a replay
        self.replay = replay        # what the concrete twin observed
        self.seconds = seconds
        self.stage = stage

    def __repr__(self):
        return "Result(%s, %s, %s)" % (self.verdict, self.reason, self.replay)


def _build(A, B, abstract):
    ctx = E.Ctx(abstract=abstract)
    nA, dA = E.needed_depth(A)
    nB, dB = E.needed_depth(B)
    n = max(nA, nB)
    a = E.execute(ctx, A, n)
    b = E.execute(ctx, B, n)
    reason, dis = E.difference(ctx, a, b)
    return ctx, n, a, b, reason, dis


def _limited_terms(ctx):
    out = []
    for a in ctx.assumptions:
        if z3.is_app(a) and a.decl().kind() == z3.Z3_OP_ULT and z3.is_bv_value(a.arg(1)) and a.arg(1).as_long() == E.LIMIT:
            out.append(a.arg(0))
    return out


def replay_model(ctx, model, A, B, n):
    orc = ModelOracle(model, ctx)
    try:
        ca = C.run(A, n, orc)
        cb = C.run(B, n, orc)
    except C.OutOfBounds:
        return None, orc.log, "out-of-bounds"
    return C.observable_difference(ca, cb, orc), orc.log, None


PROBE_SEEDS = 24


class RecordingOracle:
    """wraps an oracle and records every answer, so that a probe state can be replayed by DictOracle"""

    def __init__(self, inner):
        self.inner = inner
        self.log = {}

    def inp(self, i):
        v = self.inner.inp(i)
        self.log["in_%d" % i] = v
        return v

    def const(self, key):
        v = self.inner.const(key)
        self.log["const:" + repr(key)] = v
        return v

    def func(self, name, args):
        v = self.inner.func(name, args)
        self.log["func:%s%r" % (name, tuple(args))] = v
        return v

    def mem_base(self, gen, addr):
        v = self.inner.mem_base(gen, addr)
        self.log["mem:%s:%d" % (gen, addr)] = v
        return v

    def sto_base(self, gen, key):
        v = self.inner.sto_base(gen, key)
        self.log["sto:%s:%d" % (gen, key)] = v
        return v

    def keccak(self, data):
        v = self.inner.keccak(data)
        self.log["keccak:" + data.hex()] = v
        return v


def concrete_probe(A, B, n):
    """accelerator only: a few pseudo-random boundary states on the concrete twin.  A difference found here is a real
    counterexample (reported with its state); finding none decides nothing -- the solver does."""
    for seed in range(PROBE_SEEDS):
        orc = RecordingOracle(C.HashOracle(seed))
        try:
            ca = C.run(A, n, orc, max_len=2048)
            cb = C.run(B, n, orc, max_len=2048)
        except (C.OutOfBounds, IndexError, ValueError):
            continue
        d = C.observable_difference(ca, cb, orc)
        if d is not None:
            return d, orc.log
    return None, None


def model_satisfies(model, goal):
    try:
        return all(z3.is_true(model.eval(g, model_completion=True)) for g in goal)
    except z3.Z3Exception:
        return False


def check_equiv(A, B, timeout_ms=10000, kind="equiv"):
    """decide  exists sigma. exec(A,sigma) != exec(B,sigma)  (A, B lists of (name, value))"""
    t0 = time.time()
    try:
        E.needed_depth(A)
        E.needed_depth(B)
    except E.Unsupported as e:
        return Result("unsupported", str(e))
    malformed = []
    for which, blk in (("first", A), ("second", B)):
        for n_, v_ in blk:
            try:
                if n_ == "PUSH":
                    E.push_value(v_)
                elif (n_.startswith("DUP") and n_[3:].isdigit() and not 1 <= int(n_[3:]) <= 16) or \
                        (n_.startswith("SWAP") and n_[4:].isdigit() and not 1 <= int(n_[4:]) <= 16):
                    raise E.Malformed(n_)
            except E.Malformed as e:
                malformed.append((which, str(e)))
    if malformed:
        if all(w == "second" for w, _ in malformed):
            return Result("different", "second block is not well formed: " + malformed[0][1], {}, "malformed: " + malformed[0][1])
        return Result("unsupported", "malformed input: " + malformed[0][1])
    if [tuple(i) for i in A] == [tuple(i) for i in B]:
        return Result("equal", "identical", stage="syntactic")
    probed = False
    for abstract in (True, False):
        try:
            ctx, n, a, b, reason, dis = _build(A, B, abstract)
        except E.Unsupported as e:
            return Result("unsupported", str(e))
        except E.StackUnderflow:
            return Result("unsupported", "stack underflow")
        if abstract and not ctx.abstracted:
            continue            # nothing to abstract: go straight to the precise encoding
        stage = "abstract" if abstract else "precise"
        if reason is not None:
            # structural difference: any state in the assumption is a witness; ask the solver for one
            verdict, model = solve(ctx.assumptions + ctx.side, timeout_ms, STATS, kind + ":witness")
            if verdict == "sat":
                diff, log, err = replay_model(ctx, model, A, B, n)
                return Result("different", reason, log, diff or reason, time.time() - t0, stage)
            return Result("different", reason, {}, reason, time.time() - t0, stage)
        if not dis:
            return Result("equal", "all observables syntactically identical after simplification",
                          seconds=time.time() - t0, stage=stage)
        if not probed:
            probed = True
            d, log = concrete_probe(A, B, n)
            if d is not None:
                STATS.record(kind + ":probe", "concrete-witness", "twin", 0.0)
                return Result("different", "found by the concrete probe", log, d, time.time() - t0, "probe")
        goal = ctx.assumptions + ctx.side + [z3.Or(*[f for _, f in dis])]
        verdict, model = solve(goal, min(timeout_ms, 3000), STATS, kind + ":" + stage, portfolio=False)
        if verdict == "unknown" and not abstract and ctx.shift_amounts:
            r = _case_split(ctx, dis, A, B, n, timeout_ms, kind, t0)
            if r is not None:
                return r
        if verdict == "unknown" and not abstract and timeout_ms > 3000:
            verdict, model = solve(goal, timeout_ms, STATS, kind + ":" + stage + ":long")
        if verdict == "unsat":
            return Result("equal", "unsat (%s)" % stage, seconds=time.time() - t0, stage=stage)
        if verdict == "sat":
            if abstract:
                continue
            if not model_satisfies(model, goal):
                return Result("unknown", "solver returned a model that does not satisfy the query", seconds=time.time() - t0,
                              stage=stage)
            labels = [l for l, f in dis if z3.is_true(model.eval(f, model_completion=True))]
            diff, log, err = replay_model(ctx, model, A, B, n)
            if err:
                # the witness uses lengths the twin cannot iterate over: ask for one with small offsets/lengths
                small = [z3.ULT(t, E.BV(4096)) for t in _limited_terms(ctx)]
                verdict, model = solve(ctx.assumptions + ctx.side + small + [z3.Or(*[f for _, f in dis])], timeout_ms,
                                       STATS, kind + ":small-witness")
                if verdict == "sat":
                    labels = [l for l, f in dis if z3.is_true(model.eval(f, model_completion=True))]
                    diff, log, err = replay_model(ctx, model, A, B, n)
                if verdict != "sat" or err:
                    return Result("unknown", "difference only witnessed with lengths beyond the twin's reach",
                                  seconds=time.time() - t0, stage=stage)
            if diff is None:
                if ctx.abstracted:
                    return Result("spurious", "model does not replay (EXP abstraction)", log, None,
                                  time.time() - t0, stage)
                return Result("harness-error", "precise model does not replay on the twin: " + "; ".join(labels), log,
                              None, time.time() - t0, stage)
            return Result("different", "; ".join(labels), log, diff, time.time() - t0, stage)
        if not abstract:
            return Result("unknown", "solver: " + verdict, seconds=time.time() - t0, stage=stage)
    return Result("unknown", "no verdict", seconds=time.time() - t0)


def _case_split(ctx, dis, A, B, n, timeout_ms, kind, t0):
    """257-way case split on a symbolic shift amount (0..255 individually, >= 256 together): MUL/DIV by 1<<Y
    against X<<Y / X>>Y is out of reach as one bit-vector query but each case is decided instantly"""
    t = ctx.shift_amounts[0]
    base = ctx.assumptions + ctx.side + [z3.Or(*[f for _, f in dis])]
    cases = [t == E.BV(k) for k in range(256)] + [z3.UGE(t, E.BV(256))]
    per = max(2000, timeout_ms // 8)
    for c in cases:
        verdict, model = solve(base + [c], per, STATS, kind + ":shift-case", portfolio=False)
        if verdict == "unsat":
            continue
        if verdict == "sat":
            labels = [l for l, f in dis if z3.is_true(model.eval(f, model_completion=True))]
            diff, log, err = replay_model(ctx, model, A, B, n)
            if err or diff is None:
                return None
            return Result("different", "; ".join(labels), log, diff, time.time() - t0, "precise/shift-case")
        return None
    return Result("equal", "unsat in all 257 shift-amount cases", seconds=time.time() - t0, stage="precise/shift-case")


def concrete_difference(A, B, state):
    """replay a recorded state on the twin; returns the observed difference or None"""
    n = max(E.needed_depth(A)[0], E.needed_depth(B)[0])
    orc = DictOracle(state)
    return C.observable_difference(C.run(A, n, orc), C.run(B, n, orc), orc)
