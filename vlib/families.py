"""E5 -- program families (the syntactic bound).  Membership is fixed: no random choice decides what is in a family."""
import ast
import itertools
import os

from . import evm_smt as E

REPO = os.environ.get("GASOL_REPO", "/repo")
MASK = (1 << 256) - 1
K = [0, 1, 2, 3, 31, 32, 255, 256, 257, (1 << 160) - 1, (1 << 255) - 1, 1 << 255, MASK - 1, MASK]
K6 = [0, 1, 2, 255, 256, 1 << 255, MASK]
K3 = [0, 1, 2, (1 << 160) - 1, MASK]

BINARY = ["ADD", "SUB", "MUL", "DIV", "SDIV", "MOD", "SMOD", "EXP", "SIGNEXTEND", "LT", "GT", "SLT", "SGT", "EQ", "AND",
          "OR", "XOR", "BYTE", "SHL", "SHR", "SAR"]
TERNARY = ["ADDMOD", "MULMOD"]
UNARY = ["ISZERO", "NOT", "BALANCE", "CALLDATALOAD", "EXTCODESIZE", "MLOAD", "SLOAD"]
NULLARY = ["ADDRESS", "ORIGIN", "CALLER", "COINBASE", "CALLVALUE", "SELFBALANCE", "TIMESTAMP", "CALLDATASIZE", "NUMBER",
           "CHAINID", "GASPRICE"]


def _arity(op):
    if op in BINARY:
        return 2
    if op in TERNARY:
        return 3
    if op in UNARY:
        return 1
    if op in NULLARY:
        return 0
    return None


# ------------------------------------------------------------------------------------------ expression compiler

class V:          # input stack variable, index 0 = top of the input stack
    def __init__(self, i):
        self.i = i


def compile_exprs(exprs, n_vars):
    """stack code that leaves the values of exprs (first = deepest) above the n_vars untouched inputs"""
    code = []
    h = 0

    def go(e):
        nonlocal h
        if isinstance(e, int):
            code.append("PUSH %x" % e)
            h += 1
        elif isinstance(e, V):
            code.append("DUP%d" % (h + e.i + 1))
            h += 1
        else:
            op, args = e[0], e[1:]
            for a in reversed(args):
                go(a)
            code.append(op)
            h += 1 - len(args)

    for e in exprs:
        go(e)
    return code


# "both": the result is both operands of ONE instruction (a renaming that stops at the first occurrence leaves the other dangling)
CONTEXTS = {"stack": [], "consumed": ["PUSH 0", "MSTORE"], "twice": ["DUP1", "PUSH 20", "SSTORE"], "both": ["DUP1", "ADD"],
            "bothstore": ["DUP1", "SSTORE"]}


def rule_opcodes():
    """opcode names that occur in string comparisons inside the rule code of the current source (AST walk)"""
    path = os.path.join(REPO, "sfs_generator", "gasol_optimization.py")
    with open(path) as f:
        tree = ast.parse(f.read())
    names = set()
    pairs = set()
    wanted = {"apply_transform", "apply_cond_transformation", "update_unary_func", "compute_binary", "compute_ternary",
              "apply_transform_rules", "apply_comparation_rules"}

    def strings(node):
        out = set()
        for n in ast.walk(node):
            if isinstance(n, ast.Constant) and isinstance(n.value, str):
                out.add(n.value)
        return out

    def is_op(s):
        return _arity(s) is not None

    for fn in ast.walk(tree):
        if isinstance(fn, ast.FunctionDef) and fn.name in wanted:
            for n in ast.walk(fn):
                if isinstance(n, ast.Compare):
                    for s in strings(n):
                        if is_op(s):
                            names.add(s)
            if fn.name == "apply_cond_transformation":
                # top-level branches: `opcode == A or opcode == B` -> strings compared to x["disasm"] inside the body
                def branches(stmts):
                    for st in stmts:
                        if isinstance(st, ast.If):
                            heads = {s for s in strings(st.test) if is_op(s)}
                            inner = set()
                            for b in st.body:
                                for n in ast.walk(b):
                                    if isinstance(n, ast.Compare):
                                        inner |= {s for s in strings(n) if is_op(s)}
                            for a in heads:
                                for b in inner:
                                    pairs.add((a, b))
                            branches(st.orelse)
                branches(fn.body)
    return sorted(names), sorted(pairs)


def f_rule_singles(ops, contexts=("stack", "consumed", "twice")):
    out = []
    for op in ops:
        ar = _arity(op)
        pats = []
        if ar == 2:
            for c in K:
                pats.append(((op, V(0), c), 1))
                pats.append(((op, c, V(0)), 1))
            pats.append(((op, V(0), V(0)), 1))
            pats.append(((op, V(0), V(1)), 2))
            for c1 in K6:
                for c2 in K6:
                    pats.append(((op, c1, c2), 0))
        elif ar == 1:
            pats.append(((op, V(0)), 1))
            for c in K:
                pats.append(((op, c), 0))
        elif ar == 3:
            for c in K3:
                pats.append(((op, V(0), V(1), c), 2))
                pats.append(((op, c, V(0), V(1)), 2))
            pats.append(((op, V(0), V(1), V(2)), 3))
            for c1, c2, c3 in itertools.product([0, 1, MASK, 1 << 255], repeat=3):
                pats.append(((op, c1, c2, c3), 0))
        elif ar == 0:
            pats.append(((op,), 0))
        for e, nv in pats:
            code = compile_exprs([e], nv)
            for cx in contexts:
                out.append(" ".join(code + CONTEXTS[cx]))
    return out


def consuming_singles(ops):
    """the plain spellings `PUSH c OP`, `DUP1 OP`, `OP` that consume their inputs"""
    out = []
    for op in ops:
        ar = _arity(op)
        if ar == 2:
            for c in K:
                out.append("PUSH %x %s" % (c, op))
                out.append("PUSH %x SWAP1 %s" % (c, op))
            out.append("DUP1 %s" % op)
            out.append(op)
        elif ar == 1:
            out.append(op)
            out.append("%s %s" % (op, op))
    return out


def _inner_patterns(op, consts):
    ar = _arity(op)
    if ar == 0:
        return [((op,), 0)]
    if ar == 1:
        return [((op, V(0)), 1)] + [((op, c), 0) for c in consts[:2]]
    if ar == 2:
        r = [((op, V(0), V(1)), 2)]
        for c in consts:
            r.append(((op, V(0), c), 1))
            r.append(((op, c, V(0)), 1))
        return r
    return [((op, V(0), V(1), V(2)), 3)]


def f_rule_pairs(pairs, consts=K3, contexts=("stack",), chains=(0,), generic=(5,)):
    """outer(inner(..)) with every wiring of the inner result, other operand in {X, Y, Z, c} (c: the rule-relevant
    constants plus a generic one on which no rule fires, so that the pair rule itself is exercised)"""
    out = []
    for outer, inner in pairs:
        aro = _arity(outer)
        if aro in (None, 0):
            continue
        for ie, nv in _inner_patterns(inner, consts):
            others = [V(0), V(1), V(2)] + list(consts) + [c for c in generic if c not in consts]
            if aro == 1:
                exprs = [(outer, ie)]
            elif aro == 2:
                exprs = []
                for o in others:
                    exprs.append((outer, ie, o))
                    exprs.append((outer, o, ie))
                exprs.append((outer, ie, ie))
            else:
                exprs = [(outer, ie, V(0), V(1)), (outer, V(0), ie, V(1)), (outer, V(0), V(1), ie)]
            for e in exprs:
                for k in chains:
                    ee = e
                    for _ in range(k):
                        ee = ("ISZERO", ee)
                    code = compile_exprs([ee], 3)
                    for cx in contexts:
                        out.append(" ".join(code + CONTEXTS[cx]))
    return out



def rule_branches():
    """per top-level branch of apply_cond_transformation (AST of the current source): (opcodes of the instruction the branch
    is entered for, opcodes named inside its lambda filters) -- the latter are the consumers the rule looks for *and* the
    instructions it looks up to reuse when the rewritten instruction already exists in the block"""
    path = os.path.join(REPO, "sfs_generator", "gasol_optimization.py")
    with open(path) as f:
        tree = ast.parse(f.read())

    def strings(node):
        return {n.value for n in ast.walk(node) if isinstance(n, ast.Constant) and isinstance(n.value, str)}
    out = []
    for fn in ast.walk(tree):
        if isinstance(fn, ast.FunctionDef) and fn.name == "apply_cond_transformation":
            def branches(stmts):
                for st in stmts:
                    if isinstance(st, ast.If):
                        heads = sorted(s for s in strings(st.test) if _arity(s) is not None)
                        lam = set()
                        for b in st.body:
                            for n in ast.walk(b):
                                if isinstance(n, ast.Lambda):
                                    lam |= {s for s in strings(n) if _arity(s) is not None}
                        if heads and lam:
                            out.append((heads, sorted(lam)))
                        branches(st.orelse)
            branches(fn.body)
    return out


def f_rule_existing(branches=None):
    """consumer(head(..), other) next to one more instruction over the same atoms whose result stays on the stack: the
    branches of the context rules that *reuse an existing instruction* equal to the rewritten one (new_exist) and the
    guards on other readers are only reachable when such an instruction is in the block"""
    out = []
    atoms = [V(0), V(1), V(2), 1]
    for heads, lam in (branches if branches is not None else rule_branches()):
        for h in heads:
            arh = _arity(h)
            if arh == 0:
                inners = [(h,)]
            elif arh == 1:
                inners = [(h, V(0))]
            elif arh == 2:
                inners = [(h, V(0), V(1)), (h, V(0), 1), (h, 1, V(0)), (h, V(0), 0), (h, 0, V(0))]
            else:
                continue
            for c in lam:
                arc = _arity(c)
                for ie in inners:
                    if arc == 1:
                        tops = [(c, ie)]
                    elif arc == 2:
                        tops = [(c, ie, V(2)), (c, V(2), ie), (c, ie, V(1)), (c, V(1), ie)]
                        if arh == 0:
                            tops += [(c, ie, (1 << 160) - 1), (c, (1 << 160) - 1, ie)]
                    else:
                        continue
                    for e in sorted(set(lam) | set(heads)):
                        are = _arity(e)
                        if are == 0:
                            exist = [(e,)]
                        elif are == 1:
                            exist = [(e, a) for a in atoms[:3]]
                        elif are == 2:
                            exist = [(e, a, b) for a in atoms for b in atoms if a is not b]
                        else:
                            continue
                        for top in tops:
                            for ex in exist:
                                out.append(" ".join(compile_exprs([ex, top], 3)))
                                out.append(" ".join(compile_exprs([top, ex], 3)))
    return list(dict.fromkeys(out))


def f_rule_siblings(ops, consts=(0, 1)):
    """two rule-relevant instructions applied to the SAME stack value, both results left on the stack (rules that look
    for an existing instruction on the same operand, e.g. LT(X,1) next to ISZERO(X))"""
    out = []
    forms = []
    for op in ops:
        ar = _arity(op)
        if ar == 1:
            forms.append((op, V(0)))
        elif ar == 2:
            for c in consts:
                forms.append((op, V(0), c))
                forms.append((op, c, V(0)))
            forms.append((op, V(0), V(1)))
            forms.append((op, V(0), V(0)))
    for a in forms:
        for b in forms:
            if a is b:
                continue
            out.append(" ".join(compile_exprs([a, b], 2)))
    return out


def f_rule_triples(pairs, consts=(0, 1), extras=("ADD7", "ISZERO")):
    """outer(inner(a, b), inner(a', b')) where the two inner terms share an operand, and one of the inner results is read
    by one more instruction (its result stays on the stack, the inner results do not): context rules that rewrite an
    inner instruction in place must check that nobody else reads it"""
    out = []
    for outer, inner in pairs:
        if _arity(outer) != 2 or _arity(inner) != 2:
            continue
        i1 = (inner, V(0), V(1))
        seconds = [(inner, V(0), V(2)), (inner, V(2), V(1)), (inner, V(0), consts[-1]), (inner, consts[-1], V(1)), (inner, V(1), V(0))]
        for i2 in seconds:
            for top in ((outer, i1, i2), (outer, i2, i1)):
                for which in (i1, i2):
                    for ex in extras:
                        e = ("ADD", which, 7) if ex == "ADD7" else ("ISZERO", which)
                        out.append(" ".join(compile_exprs([e, top], 3)))
                        out.append(" ".join(compile_exprs([top, e], 3)))
    return list(dict.fromkeys(out))


def deep_stack_blocks():
    """blocks whose operands sit 14..16 deep (DUP16/SWAP16 reach)"""
    out = []
    for op in ("SUB", "DIV", "LT", "SHL", "ADD", "AND"):
        for k in (14, 15, 16):
            out.append("DUP%d %s" % (k, op))
            out.append("DUP%d DUP2 %s" % (k, op))
            out.append("DUP%d DUP%d %s" % (k, k, op))
            out.append("SWAP%d %s" % (k, op))
            out.append("DUP%d SWAP1 %s SWAP%d" % (k, op, k - 1))
        out.append("DUP16 DUP16 %s DUP16 %s" % (op, op))
        # a deep value fetched twice in a row as its last uses, with the top already in place
        for k in (15, 16):
            out.append("DUP%d DUP1 %s SWAP%d POP" % (k, op, k))
            out.append("DUP%d DUP1 %s SWAP%d POP" % (k, op, k - 1))
            out.append("DUP%d DUP1 %s" % (k, op))
            out.append("DUP%d DUP%d %s SWAP%d POP" % (k, k, op, k))
    for k in (15, 16):
        out.append("DUP%d DUP1 SSTORE" % k)
        out.append("DUP%d DUP1 MSTORE SWAP%d POP" % (k, k - 1))
        out.append("DUP%d DUP1 KECCAK256 SWAP%d POP" % (k, k))
    return out


def f_squares(ops):
    """one instruction reading the same initial element twice, the element surviving at every position of the final stack"""
    out = []
    for op in ops:
        if _arity(op) != 2:
            continue
        for tail in ("", "SWAP1", "SWAP2", "SWAP1 SWAP2", "DUP2 DUP1 %s" % op, "DUP2 DUP1 %s SWAP1" % op, "SWAP1 DUP1 DUP1 %s" % op):
            out.append(("DUP1 DUP1 %s %s" % (op, tail)).strip())
            out.append(("DUP2 DUP1 %s %s" % (op, tail)).strip())
    return out


def f_rule_chains(ops, depth=4):
    out = []
    for op in ops:
        ar = _arity(op)
        bases = []
        if ar == 2:
            bases = [(op, V(0), V(1)), (op, V(0), 0), (op, 0, V(0)), (op, V(0), 1), (op, 1, V(0)), (op, V(0), V(0))]
        elif ar == 1:
            bases = [(op, V(0))]
        for b in bases:
            for k in range(1, depth + 1):
                e = b
                for _ in range(k):
                    e = ("ISZERO", e)
                out.append(" ".join(compile_exprs([e], 2)))
                # the inner value stays live as well
                out.append(" ".join(compile_exprs([b, e], 2)))
    return out


# ------------------------------------------------------------------------------------------ F-exh

V_EXH = ["PUSH 0", "PUSH 1", "PUSH " + "f" * 64, "DUP1", "DUP2", "SWAP1", "SWAP2", "POP", "ADD", "SUB", "MUL", "DIV", "AND",
         "ISZERO", "SHL", "MLOAD", "MSTORE", "SLOAD", "SSTORE", "CALLER"]


def _tok(instr):
    p = instr.split(" ")
    return (p[0], p[1] if len(p) > 1 else None)


V_EXH2 = ["PUSH 0", "PUSH 1", "DUP1", "DUP2", "SWAP1", "SWAP2", "POP", "LT", "GT", "EQ", "ISZERO", "SUB", "XOR", "OR", "EXP", "SHR"]


def f_exh(L, max_in=3, vocab=None):
    out = []
    for n in range(1, L + 1):
        for blk in itertools.product(vocab or V_EXH, repeat=n):
            need, _ = E.needed_depth([_tok(i) for i in blk])
            if need <= max_in:
                out.append(" ".join(blk))
    return out


# ------------------------------------------------------------------------------------------ F-mem

DELTAS = [0, 1, 16, 31, 32, 33, 64]


def _addr_atoms(deltas):
    atoms = []
    for d in deltas:
        atoms.append(("c+%d" % d, 0x80 + d))
    for d in deltas:
        atoms.append(("x+%d" % d, ("ADD", V(0), d) if d else V(0)))
    atoms.append(("y", V(1)))
    return atoms


def f_mem(lengths=(2,), deltas=DELTAS, ops=("MSTORE", "MSTORE8", "MLOAD", "KECCAK256", "SSTORE", "SLOAD"), mixed=False):
    """sequences of memory / storage operations; inputs: x = in_0, y = in_1, stored values in_2, in_3, ..."""
    out = []
    atoms = _addr_atoms(deltas)
    mem_ops = [o for o in ops if o in ("MSTORE", "MSTORE8", "MLOAD", "KECCAK256")]
    sto_ops = [o for o in ops if o in ("SSTORE", "SLOAD")]
    groups = [mem_ops, sto_ops] if not mixed else [list(ops)]
    for n in lengths:
        for group in groups:
            if not group:
                continue
            for seq in itertools.product(group, repeat=n):
                if all(o in ("MLOAD", "SLOAD", "KECCAK256") for o in seq):
                    if len(set(seq)) > 1 or n > 2:
                        continue
                for addrs in itertools.product(atoms, repeat=n):
                    code = []
                    h = 0            # values pushed by loads so far
                    for k, (op, (_, a)) in enumerate(zip(seq, addrs)):
                        def var(i):
                            return "DUP%d" % (h + i + 1)
                        sub = []
                        hh = h

                        def emit_addr():
                            nonlocal hh
                            if isinstance(a, int):
                                sub.append("PUSH %x" % a)
                            elif isinstance(a, V):
                                sub.append("DUP%d" % (hh + a.i + 1))
                            else:
                                sub.append("PUSH %x" % a[2])
                                hh += 1
                                sub.append("DUP%d" % (hh + a[1].i + 1))
                                sub.append("ADD")
                                hh -= 1
                            hh += 1
                        if op in ("MSTORE", "MSTORE8", "SSTORE"):
                            sub.append("DUP%d" % (hh + 2 + k + 1))      # value: in_(2+k)
                            hh += 1
                            emit_addr()
                            sub.append(op)
                            hh -= 2
                        elif op in ("MLOAD", "SLOAD"):
                            emit_addr()
                            sub.append(op)
                        else:
                            sub.append("PUSH 20")
                            hh += 1
                            emit_addr()
                            sub.append(op)
                            hh -= 1
                        h = hh
                        code += sub
                    out.append(" ".join(code))
    return out


def compile_mem_sequence(seq):
    """seq: list of (op, address atom, value index).  Same stack discipline as f_mem: inputs x = in_0, y = in_1,
    stored values in_(2+value index); loads leave their result on the stack."""
    code = []
    h = 0
    for op, a, vi in seq:
        sub = []
        hh = h

        def emit_addr():
            nonlocal hh
            if isinstance(a, int):
                sub.append("PUSH %x" % a)
            elif isinstance(a, V):
                sub.append("DUP%d" % (hh + a.i + 1))
            else:
                sub.append("PUSH %x" % a[2])
                hh += 1
                sub.append("DUP%d" % (hh + a[1].i + 1))
                sub.append("ADD")
                hh -= 1
            hh += 1
        if op in ("MSTORE", "MSTORE8", "SSTORE"):
            if isinstance(vi, tuple) and vi[0] == "c":          # a constant value
                sub.append("PUSH %x" % vi[1])
            elif isinstance(vi, tuple) and vi[0] == "in":       # an absolute input (0 = x, 1 = y: value and address related)
                sub.append("DUP%d" % (hh + vi[1] + 1))
            elif isinstance(vi, tuple) and vi[0] == "ld":       # the result of the vi[1]-th load so far (data flow load -> store)
                sub.append("DUP%d" % (hh - vi[1]))
            else:
                sub.append("DUP%d" % (hh + 2 + vi + 1))
            hh += 1
            emit_addr()
            sub.append(op)
            hh -= 2
        elif op in ("MLOAD", "SLOAD"):
            emit_addr()
            sub.append(op)
        else:
            sub.append("PUSH %x" % (vi[1] if isinstance(vi, tuple) and vi[0] == "len" else 0x20))
            hh += 1
            emit_addr()
            sub.append(op)
            hh -= 1
        h = hh
        code += sub
    return " ".join(code)


def f_mem_shared_values(deltas=(0, 1, 31, 32), tail=(None, "MLOAD", "KECCAK256"), head=(None,)):
    """two stores of the *same* value (same input, same constant, or the address variable itself) to equal, overlapping
    or unrelated places, optionally followed by a load / hash that observes the result: the order of two stores of one
    value still matters in memory when their byte ranges overlap without coinciding"""
    atoms = [a for _, a in _addr_atoms(list(deltas))]
    out = []
    for group, loads in ((("MSTORE", "MSTORE8"), [t for t in tail if t != "SLOAD"]), (("SSTORE",), [None, "SLOAD"])):
        for o1 in group:
            for o2 in group:
                for a1 in atoms:
                    for a2 in atoms:
                        for val in (0, ("c", 0), ("c", 0xff01), ("in", 0)):
                            for t in loads:
                                for hd in head:
                                    if hd is not None and (hd == "SLOAD") != (o1 == "SSTORE"):
                                        continue
                                    for ha in ((a1, a2) if hd is not None else (None,)):
                                        # a load *before* the two stores of one value: it must stay before both of them
                                        seq = ([(hd, ha, 0)] if hd is not None else []) + [(o1, a1, val), (o2, a2, val)]
                                        if t is not None:
                                            seq.append((t, a1 if isinstance(a1, int) else a2, 0))
                                        out.append(compile_mem_sequence(seq))
    return list(dict.fromkeys(out))


def f_mem_repeated_store(deltas=(0, 1, 31, 32)):
    """store, something in between, the same store again (same place, same value): the second one is dead only if
    nothing in between writes or reads those bytes"""
    atoms = [a for _, a in _addr_atoms(list(deltas))]
    out = []
    for st, mids, tail in (("MSTORE", ("MSTORE8", "MSTORE", "MLOAD", "KECCAK256"), "MLOAD"), ("MSTORE8", ("MSTORE", "MSTORE8", "MLOAD"), "MLOAD"),
                           ("SSTORE", ("SSTORE", "SLOAD"), "SLOAD")):
        for a in atoms:
            for mid in mids:
                for am in atoms:
                    seq = [(st, a, 0), (mid, am, 1), (st, a, 0)]
                    out.append(compile_mem_sequence(seq))
                    out.append(compile_mem_sequence(seq + [(tail, a, 0)]))
    return list(dict.fromkeys(out))


def f_mem_dataflow(deltas=(0, 32), spaces=("mem", "sto")):
    """loads whose result is stored later, with other stores in between: the ordering constraints then form chains
    (load before store because of aliasing, store after load because of data flow)"""
    atoms = [a for _, a in _addr_atoms(list(deltas))]
    out = []
    for sp in spaces:
        L, S = ("MLOAD", "MSTORE") if sp == "mem" else ("SLOAD", "SSTORE")
        shapes = [[(L, None), (S, 0), (S, ("ld", 0))], [(L, None), (S, ("ld", 0)), (S, 0)], [(S, 0), (L, None), (S, ("ld", 0))],
                  [(L, None), (S, ("ld", 0)), (L, None)], [(L, None), (L, None), (S, ("ld", 0)), (S, ("ld", 1))],
                  [(L, None), (S, 0), (L, None), (S, ("ld", 0))]]
        for shape in shapes:
            for addrs in itertools.product(atoms, repeat=len(shape)):
                if len(shape) > 3 and len(set(map(repr, addrs))) > 2:
                    continue
                out.append(compile_mem_sequence([(op, a, v if v is not None else 0) for (op, v), a in zip(shape, addrs)]))
    return list(dict.fromkeys(out))


def f_mem_byte_in_word(deltas=(0, 1, 31, 32)):
    """a word access, then a byte store, then a word load: the byte may fall on any position of either word"""
    atoms = [a for _, a in _addr_atoms(list(deltas))]
    out = []
    for first in ("MSTORE", "MLOAD"):
        for a1 in atoms:
            for a2 in atoms:
                for a3 in atoms:
                    out.append(compile_mem_sequence([(first, a1, 0), ("MSTORE8", a2, 1), ("MLOAD", a3, 2)]))
    return out


def f_mem_mutant_pairs(deltas=(0, 1, 32), ops=("MSTORE", "MSTORE8", "MLOAD", "SSTORE", "SLOAD"), length=2):
    """pairs (B, B') where B' drops, duplicates or transposes memory/storage operations of B"""
    atoms = [a for _, a in _addr_atoms(list(deltas))]
    out = []
    mem_ops = [o for o in ops if o in ("MSTORE", "MSTORE8", "MLOAD", "KECCAK256")]
    sto_ops = [o for o in ops if o in ("SSTORE", "SLOAD")]
    for group in (mem_ops, sto_ops):
        for seq_ops in itertools.product(group, repeat=length):
            if not any(o in ("MSTORE", "MSTORE8", "SSTORE") for o in seq_ops):
                continue
            for addrs in itertools.product(atoms, repeat=length):
                base = [(o, a, k) for k, (o, a) in enumerate(zip(seq_ops, addrs))]
                b = compile_mem_sequence(base)
                stores = [k for k, (o, _, _) in enumerate(base) if o in ("MSTORE", "MSTORE8", "SSTORE")]
                # transpose the first two operations (values travel with their operations)
                if length >= 2:
                    t = [base[1], base[0]] + base[2:]
                    n_loads = sum(1 for o, _, _ in base if o in ("MLOAD", "SLOAD", "KECCAK256"))
                    if n_loads == 0:
                        out.append((b, compile_mem_sequence(t), "transpose"))
                if len(stores) >= 1 and all(o in ("MSTORE", "MSTORE8", "SSTORE") for o, _, _ in base):
                    k = stores[0]
                    out.append((b, compile_mem_sequence(base[:k] + base[k + 1:]), "drop-store"))
                    out.append((b, compile_mem_sequence(base[:k + 1] + [base[k]] + base[k + 1:]), "duplicate-store"))
    return out


def f_mem_move_pairs(deltas=(0, 8, 16, 24), length=4, store_ops=("MSTORE",), load_ops=("MLOAD",), n_stores=(2,)):
    """pairs (B, B') where B' moves ONE memory operation of B to another place without changing the relative order of
    the loads (so both leave their results in the same stack positions): whether the two are equivalent depends on which
    byte ranges overlap -- exactly what the checker's dependency comparison has to decide"""
    atoms = [0x80 + d for d in deltas]
    out = []
    for kinds in itertools.product("SL", repeat=length):
        if kinds.count("S") not in n_stores:
            continue
        for sop in store_ops:
            for lop in load_ops:
                for addrs in itertools.product(atoms, repeat=length):
                    base = []
                    vi = 0
                    for k, a in zip(kinds, addrs):
                        if k == "S":
                            base.append((sop, a, vi))
                            vi += 1
                        else:
                            base.append((lop, a, 0))
                    b = compile_mem_sequence(base)
                    for i in range(length):
                        for jpos in range(length):
                            if jpos == i:
                                continue
                            seq = list(base)
                            x = seq.pop(i)
                            seq.insert(jpos, x)
                            if [s for s in seq if s[0] == lop] != [s for s in base if s[0] == lop]:
                                continue
                            if seq == base:
                                continue
                            out.append((b, compile_mem_sequence(seq), "move"))
    seen, uniq = set(), []
    for p in out:
        if p[:2] not in seen:
            seen.add(p[:2])
            uniq.append(p)
    return uniq


# ------------------------------------------------------------------------------------------ F-real

def f_real_documents():
    d = os.path.join(REPO, "examples", "jsons-solc")
    return sorted(os.path.join(d, f) for f in os.listdir(d) if f.endswith(".json_solc"))


def example_block_files():
    d = os.path.join(REPO, "examples", "blocks")
    return sorted(os.path.join(d, f) for f in os.listdir(d) if f.endswith(".txt"))


def f_growth_chains(ns=(10, 14, 18, 22), ops=("ADD", "MUL", "AND", "SUB")):
    """(DUP1 OP)^n: the value after step k is op(v, v) of the value before it -- a term DAG of size n whose tree unfolding has
    2^n leaves.  Work proportional to the block means proportional to n."""
    return [" ".join(["DUP1 " + op] * n) for op in ops for n in ns]


TERMINALS = ["STOP", "RETURN", "REVERT", "INVALID", "SELFDESTRUCT"]


def f_mid_terminal(first=("PUSH 1", "POP", "ADD", "DUP1 DUP1 MSTORE", "DUP1 DUP1 LOG0", "PUSH 0 PUSH 1"),
                   second=("PUSH 1 PUSH 0 ADD", "POP", "PUSH 1", "DUP1 DUP1 MSTORE", "GAS")):
    """text with a block-ending instruction in the middle: whatever follows it belongs to the next block"""
    out = []
    for a in first:
        for t in TERMINALS:
            pre = {"RETURN": "PUSH 0 PUSH 0 ", "REVERT": "PUSH 0 PUSH 0 ", "SELFDESTRUCT": "PUSH 0 "}.get(t, "")
            for b in second:
                out.append("%s %s%s %s" % (a, pre, t, b))
    return out


def f_long_partition(lengths=(23, 26, 31, 40, 47), max_stores=3):
    """blocks longer than the 22-instruction threshold of -partition with stores at enumerated places (the partition
    heuristic only runs on these)"""
    out = []
    for n in lengths:
        slots = list(range(1, n - 3, 4))
        for r in range(0, max_stores + 1):
            for pos in itertools.combinations(slots, r):
                if r >= 2 and (sum(pos) + n) % 3:          # fixed thinning of the many 2- and 3-store placements
                    continue
                toks = []
                k = 0
                while len(toks) < n:
                    if k < len(pos) and len(toks) >= pos[k]:
                        toks += ["DUP2", "DUP2", ("MSTORE", "SSTORE", "MSTORE8")[k % 3]]
                        k += 1
                    else:
                        toks += ["PUSH %x" % (len(toks) + 1), "POP"] if len(toks) % 4 else ["DUP1", "ISZERO", "POP"]
                out.append(" ".join(toks))
    return list(dict.fromkeys(out))


def f_mem_consuming(deltas=(0, 32)):
    """stores that consume their operands straight from the input stack (no DUP copy), followed by a load of the same or a
    neighbouring place: forwarding the stored value then needs a copy the original block never made"""
    out = []
    for st, ld in (("MSTORE", "MLOAD"), ("SSTORE", "SLOAD"), ("MSTORE8", "MLOAD")):
        for d in deltas:
            c = 0x80
            out.append("PUSH %x %s PUSH %x %s" % (c, st, c + d, ld))            # constant address, value from the stack
            out.append("%s PUSH %x %s" % (st, c, ld))                             # both operands from the stack
            out.append("DUP2 %s %s" % (st, ld))                                   # address reused for the load
            out.append("DUP3 %s DUP2 %s" % (st, ld))
            out.append("DUP1 %s" % st)                                            # address = value
            out.append("SWAP1 %s PUSH %x %s" % (st, c, ld))
            out.append("DUP2 DUP2 %s %s" % (st, ld))
            out.append("DUP2 DUP2 %s %s SWAP1 POP" % (st, ld))
            out.append("PUSH %x %s PUSH %x %s PUSH %x %s" % (c, st, c + d, ld, c, ld))
            out.append("PUSH %x %s PUSH %x %s DUP2 ADD" % (c, st, c + d, ld))
    return list(dict.fromkeys(out))


def f_two_segments(ops=("SUB", "ADD", "LT", "AND", "SHL", "DIV")):
    """two optimizable segments around a split instruction, both using the same opcodes (so that instruction ids such as
    SUB_0 occur in both specifications): whatever a checker remembers about one sub-block must not leak into the next"""
    out = []
    for op in ops:
        for op2 in (op, "SUB" if op != "SUB" else "ADD"):
            for split in ("DUP2 DUP2 LOG1", "GAS POP", "DUP1 DUP3 LOG2", "DUP2 DUP2 SSTORE"):
                for b in ("%s" % op2, "DUP3 %s" % op2, "DUP2 DUP2 %s SWAP1 POP" % op2, "DUP2 DUP2 %s DUP3 %s" % (op2, op)):
                    out.append("DUP2 DUP2 %s %s %s" % (op, split, b))
    return list(dict.fromkeys(out))


def f_every_static_opcode():
    """one block per statically priced opcode of the independent cost table (operands taken from the input stack, result
    left on the stack) and one where its result is used twice: an entry of the tool's gas/size tables that is wrong for an
    opcode no rule mentions is only visible on a block that contains that opcode"""
    from . import cost
    out = []
    for op in sorted(cost.BASE | cost.VERYLOW | cost.LOW | cost.MID):
        if op in ("POP", "PUSH0", "PC", "GAS", "JUMP", "MSTORE", "MSTORE8"):
            continue
        try:
            E.arity(op)
        except Exception:       # noqa
            continue
        out.append(op)
        out.append("%s DUP1 ADD" % op)
        out.append("%s DUP1" % op)
    for k in range(1, 17):
        out.append("DUP%d" % k)
        out.append("SWAP%d" % k)
    return out


def f_keccak_pairs():
    """two KECCAK256 in one block: same offset with different lengths, different offsets with the same length, constant and
    stack operands, with and without a store in between -- two hashes may be merged only if offset AND length agree and no
    byte of the range was written in between"""
    out = []
    offs = ["PUSH 0", "PUSH 80", "DUP3"]
    lens = ["PUSH 20", "PUSH 40", "DUP4"]
    mids = ["", "DUP5 PUSH 80 MSTORE", "DUP5 PUSH 9f MSTORE8", "DUP5 DUP5 MSTORE"]
    for o1 in offs:
        for l1 in lens:
            for o2 in offs:
                for l2 in lens:
                    if (o1, l1) == (o2, l2) and o1 != "PUSH 80":
                        continue
                    for mid in mids:
                        if mid and not (o1 == o2):
                            continue
                        # after the first hash one more item is on the stack: DUPs of the second hash reach one deeper
                        def bump(t):
                            return "DUP%d" % (int(t[3:]) + 1) if t.startswith("DUP") else t
                        m = " ".join(bump(x) if x.startswith("DUP") else x for x in mid.split(" ")) if mid else ""
                        m = m.replace("DUP6 DUP6 MSTORE", "DUP6 DUP5 MSTORE") if m else m
                        out.append(" ".join(x for x in [l1, o1 if not o1.startswith("DUP") else bump(o1), "KECCAK256", m,
                                                        bump(l2), bump(bump(o2)) if o2.startswith("DUP") else o2, "KECCAK256"] if x))
    return list(dict.fromkeys(out))
