"""Symbolic execution of (a subset of) Python straight from the AST of the *current* source, into z3.

Python ints that stand for EVM words are wide signed bit-vectors (WIDTH bits, wide enough that no intermediate of the
analysed kernels can overflow: products of two 256-bit words, shifts of a word by < 256, plus a sign bit), so that
`%`, `//`, `>>`, `<<`, `&`, `|`, `^`, `~` all live in one theory and wrap-around of the *analysed code* is visible
as a difference to the 256-bit reference.  Every arithmetic node also emits a no-overflow side obligation at WIDTH.

Values:  SymInt (z3 BitVec WIDTH, signed) | concrete Python objects (int, str, bool, None, list, tuple, dict)
         | SymBool (z3 Bool).
Control: conditions on symbolic values fork; the executor returns a list of paths (condition, outcome) where outcome
is ("return", value) or ("raise", exception name).  Loops are unrolled up to a bound with an unwinding assertion.
Anything outside the subset raises Unmodelled: the obligation is then reported inconclusive, never passed."""
import ast
import z3

WIDTH = 520


class Unmodelled(Exception):
    pass


class SymInt:
    def __init__(self, t):
        self.t = t

    def __repr__(self):
        return "SymInt(%s)" % z3.simplify(self.t)


class SymBool:
    def __init__(self, t):
        self.t = t


def bvc(v):
    return z3.BitVecVal(v, WIDTH)


def lift(v):
    """concrete int / SymInt -> z3 term"""
    if isinstance(v, SymInt):
        return v.t
    if isinstance(v, bool):
        return bvc(int(v))
    if isinstance(v, int):
        if abs(v) >= 1 << (WIDTH - 2):
            raise Unmodelled("constant too wide")
        return bvc(v)
    raise Unmodelled("not an integer: %r" % (v,))


def is_sym(v):
    return isinstance(v, (SymInt, SymBool))


def _nonneg(t):
    """syntactic: the term is a zero-extension, a non-negative numeral, or a sum/product of such (which cannot wrap
    because every arithmetic node carries a no-overflow obligation)"""
    t = z3.simplify(t)
    if z3.is_bv_value(t):
        return t.as_signed_long() >= 0
    if z3.is_app(t):
        k = t.decl().kind()
        if k == z3.Z3_OP_ZERO_EXT:
            return True
        if k == z3.Z3_OP_CONCAT and z3.is_bv_value(t.arg(0)) and t.arg(0).as_long() == 0:
            return True
        if k in (z3.Z3_OP_BADD, z3.Z3_OP_BMUL):
            return all(_nonneg(c) for c in t.children())
    return False


class SymText:
    """text rendering of a symbolic integer: hex(v) / str(v), possibly with the first `skip` characters sliced off.
    hex(v)[2:] of a non-negative v is exactly its canonical lower-case hexadecimal numeral."""

    def __init__(self, kind, value, skip):
        self.kind, self.value, self.skip = kind, value, skip

    def __repr__(self):
        return "SymText(%s, %r, skip=%d)" % (self.kind, self.value, self.skip)


class NativeNamespace:
    """stand-in for a module / object whose attributes the analysed code reads (values may be symbolic)"""

    def __init__(self, **kw):
        self.__dict__.update(kw)


def _fresh_copy(v):
    """containers are re-created for every re-execution (the analysed code may mutate its arguments)"""
    if isinstance(v, list):
        return [_fresh_copy(x) for x in v]
    if isinstance(v, dict):
        return {k: _fresh_copy(x) for k, x in v.items()}
    if isinstance(v, tuple):
        return tuple(_fresh_copy(x) for x in v)
    return v


class _Closure:
    def __init__(self, ex, node, env, globs):
        self.ex, self.node, self.env, self.globs = ex, node, env, globs

    def __call__(self, *args):
        env = dict(self.env)
        for a, v in zip(self.node.args.args, args):
            env[a.arg] = v
        return self.ex.expr(self.node.body, env, self.globs)


class PyRaise(Exception):
    def __init__(self, name):
        self.name = name


class _Return(Exception):
    def __init__(self, value):
        self.value = value


class _Fork(Exception):
    """raised when a symbolic condition must be decided: the driver re-executes with a longer decision prefix"""

    def __init__(self, cond):
        self.cond = cond


class Executor:
    """re-execution based path exploration (DFS over decision prefixes, feasibility checked by z3)"""

    def __init__(self, module_ast, module_globals=None, loop_bound=40, assumptions=()):
        self.funcs = {n.name: n for n in ast.walk(module_ast) if isinstance(n, ast.FunctionDef)}
        self.module_globals = dict(module_globals or {})
        self.loop_bound = loop_bound
        self.assumptions = list(assumptions)
        self.obligations = []      # (path condition, formula that must hold, description)
        self.opaque_constructors = set()   # class names whose construction is recorded, not executed

    # ---------------------------------------------------------------------------------------------- driver
    def run(self, fname, args, global_env=None):
        """returns list of (path_condition_list, outcome, globals_after)"""
        paths = []
        stack = [[]]
        while stack:
            prefix = stack.pop()
            self.decisions = list(prefix)
            self.pos = 0
            self.pc = []
            self.genv = {k: _fresh_copy(v) for k, v in (global_env or {}).items()}
            self.path_obligations = []
            try:
                try:
                    r = self.call_function(fname, [_fresh_copy(a) for a in args])
                    outcome = ("return", r)
                except PyRaise as e:
                    outcome = ("raise", e.name)
                paths.append((list(self.pc), outcome, dict(self.genv)))
                for ob in self.path_obligations:
                    self.obligations.append(ob)
            except _Fork as f:
                for choice in (False, True):
                    c = f.cond if choice else z3.Not(f.cond)
                    s = z3.Solver()
                    s.set("timeout", 10000)
                    for a in self.assumptions + self.pc + [c]:
                        s.add(a)
                    if str(s.check()) != "unsat":
                        stack.append(prefix + [choice])
        return paths

    def decide(self, cond):
        """cond: z3 Bool"""
        cond = z3.simplify(cond)
        if z3.is_true(cond):
            return True
        if z3.is_false(cond):
            return False
        if self.pos < len(self.decisions):
            ch = self.decisions[self.pos]
            self.pos += 1
            self.pc.append(cond if ch else z3.Not(cond))
            return ch
        raise _Fork(cond)

    def truth(self, v):
        if isinstance(v, SymBool):
            return self.decide(v.t)
        if isinstance(v, SymInt):
            return self.decide(v.t != bvc(0))
        return bool(v)

    # ---------------------------------------------------------------------------------------------- calls
    def call_function(self, fname, args, kwargs=None):
        fn = self.funcs[fname]
        env = {}
        params = [a.arg for a in fn.args.args]
        defaults = fn.args.defaults
        for i, p in enumerate(params):
            if i < len(args):
                env[p] = args[i]
            elif kwargs and p in kwargs:
                env[p] = kwargs[p]
            else:
                d = defaults[i - (len(params) - len(defaults))] if i >= len(params) - len(defaults) else None
                if d is None:
                    raise Unmodelled("missing argument " + p)
                env[p] = self.expr(d, env, set())
        if fn.args.vararg:
            env[fn.args.vararg.arg] = tuple(args[len(params):])
        globs = set()
        try:
            self.block(fn.body, env, globs)
        except _Return as r:
            return r.value
        return None

    # ---------------------------------------------------------------------------------------------- statements
    def block(self, stmts, env, globs):
        for st in stmts:
            self.stmt(st, env, globs)

    def setvar(self, name, val, env, globs):
        if name in globs:
            self.genv[name] = val
        else:
            env[name] = val

    def getvar(self, name, env, globs):
        if name in globs or (name not in env and name in self.genv):
            if name in self.genv:
                return self.genv[name]
        if name in env:
            return env[name]
        if name in self.genv:
            return self.genv[name]
        if name in self.module_globals:
            return self.module_globals[name]
        if name in ("True", "False", "None"):
            return {"True": True, "False": False, "None": None}[name]
        raise Unmodelled("unknown name " + name)

    def stmt(self, st, env, globs):
        if isinstance(st, ast.Global):
            globs.update(st.names)
        elif isinstance(st, ast.Expr):
            if isinstance(st.value, ast.Constant):
                return
            self.expr(st.value, env, globs)
        elif isinstance(st, ast.Assign):
            v = self.expr(st.value, env, globs)
            for tg in st.targets:
                self.assign(tg, v, env, globs)
        elif isinstance(st, ast.AugAssign):
            cur = self.expr(st.target, env, globs)
            v = self.binop(st.op, cur, self.expr(st.value, env, globs))
            self.assign(st.target, v, env, globs)
        elif isinstance(st, ast.Return):
            raise _Return(self.expr(st.value, env, globs) if st.value is not None else None)
        elif isinstance(st, ast.If):
            if self.truth(self.expr(st.test, env, globs)):
                self.block(st.body, env, globs)
            else:
                self.block(st.orelse, env, globs)
        elif isinstance(st, ast.While):
            n = 0
            while self.truth(self.expr(st.test, env, globs)):
                n += 1
                if n > self.loop_bound:
                    raise Unmodelled("loop bound %d exceeded (unwinding assertion)" % self.loop_bound)
                self.block(st.body, env, globs)
        elif isinstance(st, ast.For):
            it = self.expr(st.iter, env, globs)
            if is_sym(it) or not isinstance(it, (list, tuple, range)):
                raise Unmodelled("for over non-concrete iterable")
            for x in it:
                self.assign(st.target, x, env, globs)
                self.block(st.body, env, globs)
        elif isinstance(st, ast.Try):
            try:
                self.block(st.body, env, globs)
            except PyRaise as e:
                for h in st.handlers:
                    names = []
                    if h.type is None:
                        names = None
                    elif isinstance(h.type, ast.Name):
                        names = [h.type.id]
                    elif isinstance(h.type, ast.Tuple):
                        names = [x.id for x in h.type.elts]
                    if names is None or e.name in names or "Exception" in names:
                        self.block(h.body, env, globs)
                        break
                else:
                    raise
        elif isinstance(st, ast.Pass):
            pass
        elif isinstance(st, ast.Raise):
            name = "Exception"
            if st.exc is not None:
                c = st.exc
                if isinstance(c, ast.Call):
                    c = c.func
                if isinstance(c, ast.Name):
                    name = c.id
            raise PyRaise(name)
        else:
            raise Unmodelled("statement " + type(st).__name__)

    def assign(self, tg, v, env, globs):
        if isinstance(tg, ast.Name):
            self.setvar(tg.id, v, env, globs)
        elif isinstance(tg, (ast.Tuple, ast.List)):
            if is_sym(v):
                raise Unmodelled("unpack symbolic")
            vs = list(v)
            if len(vs) != len(tg.elts):
                raise PyRaise("ValueError")
            for t, x in zip(tg.elts, vs):
                self.assign(t, x, env, globs)
        elif isinstance(tg, ast.Subscript):
            base = self.expr(tg.value, env, globs)
            idx = self.expr(tg.slice, env, globs)
            if is_sym(idx) or is_sym(base):
                raise Unmodelled("symbolic subscript store")
            base[idx] = v
        else:
            raise Unmodelled("assignment target")

    # ---------------------------------------------------------------------------------------------- expressions
    def expr(self, e, env, globs):
        if isinstance(e, ast.Constant):
            return e.value
        if isinstance(e, ast.Name):
            return self.getvar(e.id, env, globs)
        if isinstance(e, ast.BinOp):
            return self.binop(e.op, self.expr(e.left, env, globs), self.expr(e.right, env, globs))
        if isinstance(e, ast.UnaryOp):
            v = self.expr(e.operand, env, globs)
            if isinstance(e.op, ast.Not):
                if isinstance(v, SymBool):
                    return SymBool(z3.Not(v.t))
                if isinstance(v, SymInt):
                    return SymBool(v.t == bvc(0))
                return not v
            if isinstance(e.op, ast.USub):
                return SymInt(-lift(v)) if is_sym(v) else -v
            if isinstance(e.op, ast.Invert):
                return SymInt(~lift(v)) if is_sym(v) else ~v
            raise Unmodelled("unary op")
        if isinstance(e, ast.BoolOp):
            if isinstance(e.op, ast.And):
                r = True
                for x in e.values:
                    r = self.expr(x, env, globs)
                    if not self.truth(r):
                        return r if not is_sym(r) else False
                return r if not is_sym(r) else True
            r = False
            for x in e.values:
                r = self.expr(x, env, globs)
                if self.truth(r):
                    return r if not is_sym(r) else True
            return r if not is_sym(r) else False
        if isinstance(e, ast.Compare):
            left = self.expr(e.left, env, globs)
            res = None
            for op, rhs in zip(e.ops, e.comparators):
                right = self.expr(rhs, env, globs)
                c = self.compare(op, left, right)
                if res is None:
                    res = c
                else:
                    if not self.truth(res):
                        return False
                    res = c
                left = right
            return res
        if isinstance(e, ast.IfExp):
            if self.truth(self.expr(e.test, env, globs)):
                return self.expr(e.body, env, globs)
            return self.expr(e.orelse, env, globs)
        if isinstance(e, ast.Call):
            return self.call(e, env, globs)
        if isinstance(e, ast.Subscript):
            base = self.expr(e.value, env, globs)
            if isinstance(e.slice, ast.Slice):
                lo = self.expr(e.slice.lower, env, globs) if e.slice.lower else None
                hi = self.expr(e.slice.upper, env, globs) if e.slice.upper else None
                if isinstance(base, SymText) and hi is None and isinstance(lo, int) and lo >= 0:
                    return SymText(base.kind, base.value, base.skip + lo)
                if is_sym(lo) or is_sym(hi) or is_sym(base):
                    raise Unmodelled("symbolic slice")
                return base[lo:hi]
            idx = self.expr(e.slice, env, globs)
            if is_sym(idx) or is_sym(base):
                raise Unmodelled("symbolic subscript")
            try:
                return base[idx]
            except (IndexError, KeyError) as ex:
                raise PyRaise(type(ex).__name__)
        if isinstance(e, (ast.List, ast.Tuple)):
            vals = [self.expr(x, env, globs) for x in e.elts]
            return vals if isinstance(e, ast.List) else tuple(vals)
        if isinstance(e, ast.Dict):
            return {self.expr(k, env, globs): self.expr(v, env, globs) for k, v in zip(e.keys, e.values)}
        if isinstance(e, ast.JoinedStr):
            out = ""
            for part in e.values:
                if isinstance(part, ast.Constant):
                    out += str(part.value)
                else:
                    v = self.expr(part.value, env, globs)
                    out += "<sym>" if is_sym(v) else str(v)
            return out
        if isinstance(e, ast.Attribute):
            base = self.expr(e.value, env, globs)
            if is_sym(base):
                raise Unmodelled("attribute of symbolic")
            try:
                return getattr(base, e.attr)
            except AttributeError:
                raise PyRaise("AttributeError")
        if isinstance(e, ast.Lambda):
            return _Closure(self, e, dict(env), globs)
        if isinstance(e, ast.ListComp):
            if len(e.generators) != 1:
                raise Unmodelled("nested comprehension")
            g = e.generators[0]
            it = self.expr(g.iter, env, globs)
            if is_sym(it):
                raise Unmodelled("comprehension over symbolic")
            out = []
            inner = dict(env)
            for x in it:
                self.assign(g.target, x, inner, set())
                if all(self.truth(self.expr(c, inner, globs)) for c in g.ifs):
                    out.append(self.expr(e.elt, inner, globs))
            return out
        raise Unmodelled("expression " + type(e).__name__)

    def compare(self, op, a, b):
        if isinstance(op, (ast.In, ast.NotIn)):
            if is_sym(b):
                raise Unmodelled("in symbolic container")
            if isinstance(b, str):
                if is_sym(a):
                    raise Unmodelled("symbolic in str")
                r = a in b
                return r if isinstance(op, ast.In) else not r
            terms = []
            for x in b:
                c = self.compare(ast.Eq(), a, x)
                if isinstance(c, SymBool):
                    terms.append(c.t)
                elif c:
                    terms = [z3.BoolVal(True)]
                    break
            if not terms:
                r = False
            elif any(z3.is_true(t) for t in terms):
                r = True
            else:
                r = SymBool(z3.Or(*terms))
            if isinstance(op, ast.In):
                return r
            return SymBool(z3.Not(r.t)) if isinstance(r, SymBool) else (not r)
        if isinstance(a, list) and isinstance(b, list) and isinstance(op, (ast.Eq, ast.NotEq)):
            if len(a) != len(b):
                return isinstance(op, ast.NotEq)
            terms = []
            for x, y in zip(a, b):
                c = self.compare(ast.Eq(), x, y)
                if isinstance(c, SymBool):
                    terms.append(c.t)
                elif not c:
                    return isinstance(op, ast.NotEq)
            if not terms:
                return isinstance(op, ast.Eq)
            r = z3.And(*terms)
            return SymBool(r if isinstance(op, ast.Eq) else z3.Not(r))
        if is_sym(a) or is_sym(b):
            # a symbolic int never equals a str / None / list
            if not (isinstance(a, (SymInt, int)) and isinstance(b, (SymInt, int))) or isinstance(a, bool) and False:
                if isinstance(op, ast.Eq):
                    return False
                if isinstance(op, ast.NotEq):
                    return True
                raise PyRaise("TypeError")
            x, y = lift(a), lift(b)
            if isinstance(op, ast.Eq):
                return SymBool(x == y)
            if isinstance(op, ast.NotEq):
                return SymBool(x != y)
            if isinstance(op, ast.Lt):
                return SymBool(x < y)
            if isinstance(op, ast.LtE):
                return SymBool(x <= y)
            if isinstance(op, ast.Gt):
                return SymBool(x > y)
            if isinstance(op, ast.GtE):
                return SymBool(x >= y)
            raise Unmodelled("comparison")
        try:
            if isinstance(op, ast.Eq):
                return a == b
            if isinstance(op, ast.NotEq):
                return a != b
            if isinstance(op, ast.Lt):
                return a < b
            if isinstance(op, ast.LtE):
                return a <= b
            if isinstance(op, ast.Gt):
                return a > b
            if isinstance(op, ast.GtE):
                return a >= b
            if isinstance(op, ast.Is):
                return a is b
            if isinstance(op, ast.IsNot):
                return a is not b
        except TypeError:
            raise PyRaise("TypeError")
        raise Unmodelled("comparison")

    def oblige(self, formula, what):
        self.path_obligations.append((list(self.pc), formula, what))

    def fits(self, t, what):
        """no overflow at WIDTH: the model of unbounded Python ints is exact only if this holds"""
        lim = bvc(1 << (WIDTH - 3))
        self.oblige(z3.And(t < lim, t > -lim), "model width sufficient for " + what)

    def binop(self, op, a, b):
        if isinstance(a, str) or isinstance(b, str):
            if isinstance(op, ast.Add) and isinstance(a, str) and isinstance(b, str):
                return a + b
            if isinstance(op, ast.Mod) and isinstance(a, str):
                return a
            raise Unmodelled("string operator")
        if isinstance(a, (list, tuple)) and isinstance(op, ast.Add) and not is_sym(b):
            return a + b
        if not (is_sym(a) or is_sym(b)):
            try:
                if isinstance(op, ast.Add):
                    return a + b
                if isinstance(op, ast.Sub):
                    return a - b
                if isinstance(op, ast.Mult):
                    return a * b
                if isinstance(op, ast.FloorDiv):
                    return a // b
                if isinstance(op, ast.Mod):
                    return a % b
                if isinstance(op, ast.Pow):
                    if isinstance(b, int) and b > 4096:
                        raise Unmodelled("huge concrete power")
                    return a ** b
                if isinstance(op, ast.BitAnd):
                    return a & b
                if isinstance(op, ast.BitOr):
                    return a | b
                if isinstance(op, ast.BitXor):
                    return a ^ b
                if isinstance(op, ast.LShift):
                    return a << b
                if isinstance(op, ast.RShift):
                    return a >> b
                if isinstance(op, ast.Div):
                    raise Unmodelled("float division")
            except ZeroDivisionError:
                raise PyRaise("ZeroDivisionError")
            raise Unmodelled("operator")
        x, y = lift(a), lift(b)
        if isinstance(op, ast.Add):
            r = x + y
        elif isinstance(op, ast.Sub):
            r = x - y
        elif isinstance(op, ast.Mult):
            r = x * y
            # exactness: |x|,|y| < 2^((WIDTH-4)/2)
            half = bvc(1 << ((WIDTH - 4) // 2))
            self.oblige(z3.And(x < half, x > -half, y < half, y > -half), "model width sufficient for a product")
            return SymInt(r)
        elif isinstance(op, (ast.FloorDiv, ast.Mod)):
            if z3.is_bv_value(y) and isinstance(op, ast.Mod):
                m = y.as_signed_long()
                if m > 0 and m & (m - 1) == 0:
                    # x mod 2^k is the low k bits in two's complement, for negative x too (Python's floor-mod)
                    k = m.bit_length() - 1
                    return SymInt(z3.ZeroExt(WIDTH - k, z3.Extract(k - 1, 0, x)))
            if self.decide(y == bvc(0)):
                raise PyRaise("ZeroDivisionError")
            if _nonneg(x) and _nonneg(y):
                return SymInt(z3.UDiv(x, y) if isinstance(op, ast.FloorDiv) else z3.URem(x, y))
            q = x / y                       # signed, truncating
            rem = z3.SRem(x, y)
            adjust = z3.And(rem != bvc(0), (rem < bvc(0)) != (y < bvc(0)))
            if isinstance(op, ast.FloorDiv):
                return SymInt(z3.If(adjust, q - bvc(1), q))
            return SymInt(z3.If(adjust, rem + y, rem))
        elif isinstance(op, ast.BitAnd):
            return SymInt(x & y)
        elif isinstance(op, ast.BitOr):
            return SymInt(x | y)
        elif isinstance(op, ast.BitXor):
            return SymInt(x ^ y)
        elif isinstance(op, ast.LShift):
            if self.decide(y < bvc(0)):
                raise PyRaise("ValueError")
            # result must fit: the shift amount is obliged to be small enough for the model to be exact
            self.oblige(y <= bvc(257), "left-shift amount bounded (else the integer needs 2^amount bits)")
            r = x << y
            self.oblige(z3.And(x < bvc(1 << 258), x > -bvc(1 << 258)), "model width sufficient for a left shift")
            return SymInt(r)
        elif isinstance(op, ast.RShift):
            if self.decide(y < bvc(0)):
                raise PyRaise("ValueError")
            return SymInt(z3.If(y >= bvc(WIDTH), z3.If(x < bvc(0), bvc(-1), bvc(0)), x >> y))
        elif isinstance(op, ast.Pow):
            raise Unmodelled("symbolic ** (size obligation: the result may need exponentially many bits)")
        elif isinstance(op, ast.Div):
            raise Unmodelled("float division of symbolic integers")
        else:
            raise Unmodelled("operator")
        self.fits(r, "sum/difference")
        return SymInt(r)

    def call(self, e, env, globs):
        args = [self.expr(a, env, globs) for a in e.args]
        kwargs = {k.arg: self.expr(k.value, env, globs) for k in e.keywords}
        if isinstance(e.func, ast.Name):
            name = e.func.id
            if name in self.opaque_constructors:
                return NativeNamespace(_class=name, _args=args, _kwargs=kwargs)
            if name in env and isinstance(env[name], _Closure):
                return env[name](*args)
            if name in self.funcs and name not in env:
                return self.call_function(name, args, kwargs)
            return self.builtin(name, args)
        if isinstance(e.func, ast.Attribute):
            base = self.expr(e.func.value, env, globs)
            meth = e.func.attr
            if is_sym(base):
                raise Unmodelled("method of symbolic")
            import types
            if isinstance(base, types.ModuleType) or isinstance(base, NativeNamespace):
                target = getattr(base, meth, None)
                if target is None:
                    raise PyRaise("AttributeError")
                if not any(is_sym(a) for a in args) and not any(is_sym(v) for v in kwargs.values()):
                    return self.native(target, args, kwargs)
                if meth in self.funcs:
                    return self.call_function(meth, args, kwargs)
                raise Unmodelled("module function %s with symbolic argument" % meth)
            if isinstance(base, str) and meth in ("find", "startswith", "endswith", "strip", "split", "format"):
                if any(is_sym(a) for a in args):
                    raise Unmodelled("str method with symbolic argument")
                return getattr(base, meth)(*args)
            if isinstance(base, list) and meth in ("append", "index", "pop", "extend"):
                if meth == "index":
                    for i, x in enumerate(base):
                        if self.truth(self.compare(ast.Eq(), x, args[0])):
                            return i
                    raise PyRaise("ValueError")
                return getattr(base, meth)(*args)
            if isinstance(base, dict) and meth in ("get", "keys", "values", "items"):
                return getattr(base, meth)(*args)
            if meth == "floor" and isinstance(base, tuple):
                raise Unmodelled("math.floor")
            raise Unmodelled("method " + meth)
        raise Unmodelled("call")

    def builtin(self, name, args):
        if name == "int":
            v = args[0]
            if isinstance(v, SymInt):
                return v
            if len(args) == 2:
                try:
                    return int(v, args[1])
                except (ValueError, TypeError) as ex:
                    raise PyRaise(type(ex).__name__)
            try:
                return int(v)
            except (ValueError, TypeError) as ex:
                raise PyRaise(type(ex).__name__)
        if name == "str":
            if is_sym(args[0]):
                return SymText("dec", args[0], 0)
            if isinstance(args[0], SymText):
                return args[0]
            return str(args[0])
        if name == "len":
            if is_sym(args[0]):
                raise Unmodelled("len of symbolic")
            return len(args[0])
        if name in ("min", "max"):
            vals = list(args[0]) if len(args) == 1 else list(args)
            if not any(is_sym(v) for v in vals):
                return min(vals) if name == "min" else max(vals)
            r = lift(vals[0])
            for v in vals[1:]:
                t = lift(v)
                r = z3.If(t < r, t, r) if name == "min" else z3.If(t > r, t, r)
            return SymInt(r)
        if name == "abs":
            if is_sym(args[0]):
                t = lift(args[0])
                return SymInt(z3.If(t < bvc(0), -t, t))
            return abs(args[0])
        if name == "pow":
            if len(args) == 3 and not any(is_sym(a) for a in args):
                return pow(*args)
            if len(args) == 3:
                return ("modpow", args[0], args[1], args[2])
            raise Unmodelled("pow")
        if name == "bool":
            return self.truth(args[0])
        if name == "range":
            if any(is_sym(a) for a in args):
                raise Unmodelled("symbolic range")
            return range(*args)
        if name == "isinstance":
            raise Unmodelled("isinstance")
        if name == "list":
            return list(args[0]) if args else []
        if name == "print":
            return None
        if name in ("map", "filter"):
            fn, it = args[0], args[1]
            if is_sym(it):
                raise Unmodelled("map over symbolic")
            out = []
            for x in it:
                r = fn(x) if isinstance(fn, _Closure) else self.native(fn, [x], {})
                if name == "map":
                    out.append(r)
                elif self.truth(r):
                    out.append(x)
            return out
        if name == "sum":
            vals = list(args[0])
            if not any(is_sym(v) for v in vals):
                return sum(vals)
            r = bvc(0)
            for v in vals:
                r = r + lift(v)
            return SymInt(r)
        if name == "hex":
            if is_sym(args[0]):
                return SymText("hex", args[0], 0)
            return hex(args[0])
        if name in ("dict", "set", "tuple", "sorted") and not any(is_sym(a) for a in args):
            return {"dict": dict, "set": set, "tuple": tuple, "sorted": sorted}[name](*args)
        if name in self.module_globals and callable(self.module_globals[name]):
            if not any(is_sym(a) for a in args):
                return self.native(self.module_globals[name], args, {})
            raise Unmodelled("external function %s with symbolic argument" % name)
        raise Unmodelled("builtin " + name)

    def native(self, target, args, kwargs):
        """deterministic real function on concrete arguments: just call it"""
        def has_sym(x, depth=0):
            if is_sym(x):
                return True
            if depth < 3 and isinstance(x, (list, tuple)):
                return any(has_sym(y, depth + 1) for y in x)
            if depth < 3 and isinstance(x, dict):
                return any(has_sym(y, depth + 1) for y in x.values())
            return False
        if any(has_sym(a) for a in args) or any(has_sym(v) for v in kwargs.values()):
            raise Unmodelled("native call with symbolic data inside a container")
        try:
            return target(*args, **kwargs)
        except Exception as ex:
            raise PyRaise(type(ex).__name__)
