"""Independent cost model (bytes, instruction count, gas), written from the Yellow Paper / EIP-2929 / EIP-3855 and
solc's AssemblyItem::bytesRequired -- not from GASOL's opcodes.py.

Gas of context dependent operations (storage and account accesses, hashing, EXP, logs) is priced at its *minimum*;
monotonicity `cost(B') <= cost(B) in every context` then follows from  cost_min(B') <= cost_min(B)  together with the
separately checked condition that B' has no more occurrences of each context dependent opcode than B."""

BASE = {"ADDRESS", "ORIGIN", "CALLER", "CALLVALUE", "CALLDATASIZE", "CODESIZE", "GASPRICE", "COINBASE", "TIMESTAMP",
        "NUMBER", "DIFFICULTY", "PREVRANDAO", "GASLIMIT", "CHAINID", "BASEFEE", "RETURNDATASIZE", "POP", "PC", "MSIZE",
        "GAS", "PUSH0"}
VERYLOW = {"ADD", "SUB", "NOT", "LT", "GT", "SLT", "SGT", "EQ", "ISZERO", "AND", "OR", "XOR", "BYTE", "SHL", "SHR", "SAR",
           "CALLDATALOAD", "MLOAD", "MSTORE", "MSTORE8"}
LOW = {"MUL", "DIV", "SDIV", "MOD", "SMOD", "SIGNEXTEND", "SELFBALANCE"}
MID = {"ADDMOD", "MULMOD", "JUMP"}
DYNAMIC_MIN = {"SLOAD": 100, "SSTORE": 100, "BALANCE": 100, "EXTCODESIZE": 100, "EXTCODEHASH": 100, "EXTCODECOPY": 100,
               "KECCAK256": 30, "SHA3": 30, "EXP": 10, "LOG0": 375, "LOG1": 750, "LOG2": 1125, "LOG3": 1500, "LOG4": 1875,
               "CALL": 100, "CALLCODE": 100, "DELEGATECALL": 100, "STATICCALL": 100, "CREATE": 32000, "CREATE2": 32000,
               "CALLDATACOPY": 3, "CODECOPY": 3, "RETURNDATACOPY": 3, "BLOCKHASH": 20, "SELFDESTRUCT": 5000}


def is_zero_push(name, value):
    if name == "PUSH0":
        return True
    if name == "PUSH":
        try:
            return int(str(value), 16) == 0
        except ValueError:
            return False
    return False


def bytes_of(name, value, push0):
    if name == "tag":
        return 0
    if is_zero_push(name, value) and push0:
        return 1
    if name == "PUSH0":
        return 2                       # PUSH1 0 when PUSH0 is not available
    if name == "PUSH":
        v = int(str(value), 16)
        return 1 + max(1, (v.bit_length() + 7) // 8)
    if name in ("PUSH [tag]", "PUSH data", "PUSH [$]"):
        return 3
    if name in ("PUSH #[$]", "PUSHSIZE"):
        return 5
    if name in ("PUSHLIB", "PUSHDEPLOYADDRESS"):
        return 21
    if name == "PUSHIMMUTABLE":
        return 33
    if name == "ASSIGNIMMUTABLE":
        return 35
    return 1


def gas_min(name, value, push0):
    if name in ("tag",):
        return 0
    if name == "JUMPDEST":
        return 1
    if is_zero_push(name, value):
        return 2 if push0 else 3
    if name.startswith("PUSH") or name.startswith("DUP") or name.startswith("SWAP"):
        return 3
    if name in BASE:
        return 2
    if name in VERYLOW:
        return 3
    if name in LOW:
        return 5
    if name in MID:
        return 8
    if name == "JUMPI":
        return 10
    if name in DYNAMIC_MIN:
        return DYNAMIC_MIN[name]
    if name in ("STOP", "RETURN", "REVERT", "INVALID", "ASSERTFAIL", "ASSIGNIMMUTABLE"):
        return 0
    raise ValueError("cost model: unknown opcode " + name)


def measure(instrs, push0):
    """(gas_min, bytes, length, counts of context dependent opcodes)"""
    g = b = n = 0
    dyn = {}
    for name, value in instrs:
        g += gas_min(name, value, push0)
        b += bytes_of(name, value, push0)
        if name != "tag":
            n += 1
        if name in DYNAMIC_MIN:
            dyn[name] = dyn.get(name, 0) + 1
    return g, b, n, dyn


def improves(s0, *others):
    """the lexicographic rule of the property statement"""
    if s0 > 0:
        return True
    if s0 < 0:
        return False
    return all(o >= 0 for o in others) and any(o > 0 for o in others)
