"""Translation validation of one block through the real pipeline (runs inside a worker bound to an option set)."""
from . import gasol
from . import evm_smt as E
from .equiv import check_equiv

TIMEOUT_MS = 15000


def tokens_of_text(text):
    """independent tokenizer of the plain format emitted by families: 'PUSH <hex>' | 'PUSH [tag] v' | OP"""
    toks = text.split()
    out = []
    i = 0
    while i < len(toks):
        t = toks[i]
        if t == "PUSH" and toks[i + 1] in ("[tag]", "data", "#[$]", "[$]"):
            out.append(" ".join(toks[i:i + 3]))
            i += 3
        elif t in ("PUSH", "PUSHIMMUTABLE", "PUSHLIB", "ASSIGNIMMUTABLE", "tag"):
            out.append(" ".join(toks[i:i + 2]))
            i += 2
        else:
            out.append(t)
            i += 1
    return out


def side_conditions(A, B):
    """needed input depth(B) <= depth(A), equal height change (plain arithmetic on the two sequences)"""
    nA, dA = E.needed_depth(A)
    nB, dB = E.needed_depth(B)
    problems = []
    if nB > nA:
        problems.append("output needs a deeper input stack (%d > %d)" % (nB, nA))
    terminalA = A and A[-1][0] in ("RETURN", "REVERT", "STOP", "INVALID", "SELFDESTRUCT")
    if dA != dB and not terminalA:
        problems.append("stack height change differs (%d vs %d)" % (dA, dB))
    return problems


def validate_block(block, timeout_ms=TIMEOUT_MS):
    """run optimize -> compare -> keep-or-revert on an AsmBlock and decide equivalence of what would be emitted"""
    res = gasol.optimize_one(block)
    A = gasol.instrs_of(block)
    B = gasol.instrs_of(res["out_block"])
    rec = {"in": gasol.plain_of(A), "out": gasol.plain_of(B), "changed": A != B, "error": res["error"],
           "compare_error": res["compare_error"], "reverted": res["reverted"], "reason": res["reason"],
           "verdict": None}
    if res["error"] or res["compare_error"]:
        rec["verdict"] = "pipeline-raised"
        return rec, res
    if not rec["changed"]:
        rec["verdict"] = "unchanged"
        return rec, res
    try:
        probs = side_conditions(A, B)
    except E.Unsupported as e:
        rec["verdict"] = "unsupported"
        rec["why"] = str(e)
        return rec, res
    r = check_equiv(A, B, timeout_ms, kind="c01")
    rec["verdict"] = r.verdict
    rec["why"] = r.reason
    rec["stage"] = r.stage
    rec["secs"] = round(r.seconds, 3)
    if r.verdict == "different":
        rec["observed"] = r.replay
        rec["state"] = r.state
    elif r.verdict == "equal" and probs:
        rec["verdict"] = "different"
        rec["why"] = "; ".join(probs)
        rec["observed"] = rec["why"]
        rec["state"] = {}
    return rec, res


def validate_text(text, name="verif", timeout_ms=TIMEOUT_MS):
    blocks = gasol.parse_plain(text, name)
    out = []
    for b in blocks:
        rec, _ = validate_block(b, timeout_ms)
        out.append(rec)
    return out


def minimise(tokens, still_fails, budget=60, wall=8.0):
    """ddmin-lite: drop one instruction at a time while the failure persists (each candidate re-decided)"""
    import time
    cur = list(tokens)
    changed = True
    t_end = time.time() + wall
    while changed and budget > 0 and time.time() < t_end:
        changed = False
        for i in range(len(cur)):
            cand = cur[:i] + cur[i + 1:]
            if not cand:
                continue
            budget -= 1
            if budget <= 0 or time.time() > t_end:
                break
            try:
                instrs = [(t.split(" ")[0] if not t.startswith("PUSH ") else "PUSH", None) for t in cand]
                ok = E.needed_depth([_tok2(t) for t in cand])[0] <= 16
            except Exception:
                ok = False
            if ok and still_fails(cand):
                cur = cand
                changed = True
                break
    return cur


def _tok2(t):
    p = t.split(" ")
    if p[0] == "PUSH" and len(p) == 3:
        return (p[0] + " " + p[1], p[2])
    return (p[0], p[1] if len(p) > 1 else None)
