"""Solver front door: z3 (python API) first, external portfolio (z3 4.8.12 binary, cvc5 binary, cvc5 bv-as-int) on
`unknown`.  Every query is counted; `unknown`/errors are inconclusive and never reported as success."""
import os
import subprocess
import tempfile
import time
import collections
import z3


class Stats:
    def __init__(self):
        self.by_verdict = collections.Counter()
        self.by_kind = collections.Counter()
        self.by_backend = collections.Counter()
        self.seconds = 0.0
        self.max_seconds = 0.0

    def record(self, kind, verdict, backend, secs):
        self.by_verdict[verdict] += 1
        self.by_kind["%s:%s" % (kind, verdict)] += 1
        self.by_backend[backend] += 1
        self.seconds += secs
        self.max_seconds = max(self.max_seconds, secs)

    def merge(self, other):
        if isinstance(other, dict):
            self.by_verdict.update(other["by_verdict"])
            self.by_kind.update(other["by_kind"])
            self.by_backend.update(other["by_backend"])
            self.seconds += other["seconds"]
            self.max_seconds = max(self.max_seconds, other["max_seconds"])
        else:
            self.merge(other.as_dict())

    def as_dict(self):
        return {"queries": sum(self.by_verdict.values()), "by_verdict": dict(self.by_verdict),
                "by_kind": dict(self.by_kind), "by_backend": dict(self.by_backend),
                "seconds": round(self.seconds, 3), "max_seconds": round(self.max_seconds, 3)}

    def reset(self):
        self.__init__()


PORTFOLIO = os.environ.get("VERIF_PORTFOLIO", "1") == "1"


def solve(assertions, timeout_ms, stats, kind, portfolio=None, want_model=True):
    """returns (verdict, model) with verdict in sat|unsat|unknown"""
    t0 = time.time()
    s = z3.Solver()
    s.set("timeout", int(timeout_ms))
    for a in assertions:
        s.add(a)
    r = s.check()
    v = str(r)
    dt = time.time() - t0
    if v == "sat":
        stats.record(kind, "sat", "z3py", dt)
        return "sat", s.model()
    if v == "unsat":
        stats.record(kind, "unsat", "z3py", dt)
        return "unsat", None
    if portfolio is None:
        portfolio = PORTFOLIO
    if portfolio:
        v2, backend = external_portfolio(s.to_smt2(), max(10.0, timeout_ms / 1000.0 * 3))
        dt = time.time() - t0
        if v2 == "unsat":
            stats.record(kind, "unsat", backend, dt)
            return "unsat", None
        if v2 == "sat":
            # a model is needed for replay: retry z3py with a long budget, else inconclusive
            s.set("timeout", int(timeout_ms * 6))
            r = s.check()
            dt = time.time() - t0
            if str(r) == "sat":
                stats.record(kind, "sat", "z3py-retry", dt)
                return "sat", s.model()
            stats.record(kind, "unknown", backend + "(sat,no model)", dt)
            return "unknown", None
    stats.record(kind, "unknown", "z3py", dt)
    return "unknown", None


_BACKENDS = [
    ("z3-4.8.12", ["/usr/bin/z3", "-smt2"]),
    ("cvc5-bin", ["cvc5", "--lang=smt2"]),
    ("cvc5-bvint", ["cvc5", "--lang=smt2", "--solve-bv-as-int=sum"]),
]


def external_portfolio(smt2_text, seconds):
    fd, path = tempfile.mkstemp(suffix=".smt2", prefix="verif_q_")
    with os.fdopen(fd, "w") as f:
        # z3's simplifier emits internal "_i" (divisor known non-zero) operators other solvers do not parse
        for op in ("bvurem", "bvudiv", "bvsdiv", "bvsrem", "bvsmod"):
            smt2_text = smt2_text.replace(op + "_i", op)
        f.write("(set-logic ALL)\n" + smt2_text.replace("(set-logic ALL)", ""))
        if "(check-sat)" not in smt2_text:
            f.write("\n(check-sat)\n")
    procs = []
    try:
        for name, cmd in _BACKENDS:
            try:
                p = subprocess.Popen(cmd + [path], stdout=subprocess.PIPE, stderr=subprocess.STDOUT, text=True)
                procs.append((name, p))
            except OSError:
                pass
        deadline = time.time() + seconds
        verdict, who = "unknown", "portfolio"
        pending = list(procs)
        while pending and time.time() < deadline:
            for name, p in list(pending):
                if p.poll() is not None:
                    pending.remove((name, p))
                    out = p.stdout.read()
                    if "(error" in out:
                        continue
                    first = out.strip().splitlines()[0].strip() if out.strip() else ""
                    if first in ("sat", "unsat"):
                        verdict, who = first, name
                        pending = []
                        break
            time.sleep(0.02)
        return verdict, who
    finally:
        for _, p in procs:
            if p.poll() is None:
                p.kill()
            try:
                p.wait(timeout=2)
            except Exception:
                pass
        try:
            os.unlink(path)
        except OSError:
            pass
